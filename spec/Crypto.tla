------------------------------- MODULE Crypto -------------------------------
(* RAKP key derivations and in-session packet protection as symbolic terms,
   from IPMI v2.0 13.20-13.32.  S is a scenario record:
     authAlg, integAlg   "sha1" | "md5" | "sha256"
     authNum, integNum, confNum   wire numbers (table 13-17..19)
     icvLen    RAKP 4 ICV length (12 / 16 / 16; MD5 is untruncated = 16)
     integLen  AuthCode length (12 / 16 / 16)
     uname, pw, kg, priv, lookup, bmcSid, rc, guid
   Observed values (tags, console session ID sidM, console random Rm) are
   named captures taken from the library's actual requests. *)
EXTENDS Wire

AuthAlgs == { [num |-> 1, alg |-> "sha1", icv |-> 12], [num |-> 2, alg |-> "md5", icv |-> 16],
              [num |-> 3, alg |-> "sha256", icv |-> 16] }
IntegAlgs == { [num |-> 1, alg |-> "sha1", len |-> 12], [num |-> 2, alg |-> "md5", len |-> 16],
               [num |-> 4, alg |-> "sha256", len |-> 16] }

\* Role byte of RAKP 1 (13.20): bit 4 = name-only lookup, low nibble = requested privilege
RoleByte(S) == S.priv + (IF S.lookup THEN 0 ELSE 16)
UserBlock(S) == B(<< RoleByte(S), Len(S.uname) >> \o S.uname)
\* the BMC hashes the role, name length and name it received in RAKP Message 1 (13.20: payload bytes 25, 28 and 29..),
\* which for a correct console is UserBlock(S)
UserBlockM == Var("ublockM")
Kuid(S)  == B(S.pw)
KgEff(S) == IF S.kg = <<>> THEN B(S.pw) ELSE B(S.kg)
AlgPayload(kind, alg) == <<kind, 0, 0, 8, alg, 0, 0, 0>>
\* 13.18 Open Session Response (status OK)
\* (byte 3: the privilege level the BMC allows the session; a BMC asked for "highest" (0) may answer with the level that
\* resolves to - scenario field `grant`; the role byte of RAKP 1 and every hash still carry what the console requested)
Granted(S) == IF "grant" \in DOMAIN S THEN S.grant ELSE S.priv
OpenSessionRspT(S) ==
  Cat(<< Var("tag1"), B(<<0, Granted(S), 0>>), Var("sidM"), B(S.bmcSid),
         B(AlgPayload(0, S.authNum) \o AlgPayload(1, S.integNum) \o AlgPayload(2, S.confNum)) >>)
\* 13.21 RAKP 2 AuthCode = HMAC_Kuid(SIDm, SIDc, Rm, Rc, GUIDc, Rolem, ULengthm, UNamem)
Rakp2Auth(S) == Hmac(S.authAlg, Kuid(S),
                     Cat(<< Var("sidM"), B(S.bmcSid), Var("Rm"), B(S.rc), B(S.guid), UserBlockM >>))
Rakp2T(S) == Cat(<< Var("tag2"), B(<<0, 0, 0>>), Var("sidM"), B(S.rc), B(S.guid), Rakp2Auth(S) >>)
\* 13.22 RAKP 3 AuthCode = HMAC_Kuid(Rc, SIDm, Rolem, ULengthm, UNamem)
Rakp3Auth(S) == Hmac(S.authAlg, Kuid(S), Cat(<< B(S.rc), Var("sidM"), UserBlockM >>))
\* 13.31 SIK = HMAC_Kg(Rm, Rc, Rolem, ULengthm, UNamem)
SIK(S) == Hmac(S.authAlg, KgEff(S), Cat(<< Var("Rm"), B(S.rc), UserBlockM >>))
\* 13.23 RAKP 4 ICV = HMAC_SIK(Rm, SIDc, GUIDc), truncated per algorithm
Rakp4Icv(S) == Trunc(Hmac(S.authAlg, SIK(S), Cat(<< Var("Rm"), B(S.bmcSid), B(S.guid) >>)), S.icvLen)
Rakp4T(S) == Cat(<< Var("tag3"), B(<<0, 0, 0>>), Var("sidM"), Rakp4Icv(S) >>)
\* 13.32 K_n = HMAC_SIK(n repeated 20 times)
Kn(S, n) == Hmac(S.authAlg, SIK(S), B(Repeat(n, 20)))
K1(S) == Kn(S, 1)
K2(S) == Slice(Kn(S, 2), 0, 16)              \* AES-128 key = first 16 bytes of K2

\* offsets of the holes in the library's requests: RMCP 4 + null wrapper 12 => payload at 16
OsrTag == Slice(Req, 16, 17)   ConsoleSid == Slice(Req, 20, 24)
R1Tag  == Slice(Req, 16, 17)   RmObs      == Slice(Req, 24, 40)
UserBlockObs == Cat(<< Slice(Req, 40, 41), Slice(Req, 43, -1) >>)
R3Tag  == Slice(Req, 16, 17)   R3AuthObs  == Slice(Req, 24, -1)

\* 13.6/13.28/13.29 in-session packet from the BMC to the console
SessPacketWith(S, flags, sid, seq4, msg, iv, key1, key2) ==
  LET pl     == Cat(<< B(iv), Aes(key2, B(iv), ConfPadded(msg)) >>)
      signed == IntegPadded(Cat(<< B(<<6, flags>>), sid, B(seq4), Len16(pl), pl >>))
  IN  Cat(<< Rmcp, signed, Trunc(Hmac(S.integAlg, key1, signed), S.integLen) >>)
SessPacket(S, seq4, msg, iv) == SessPacketWith(S, 192, Var("sidM"), seq4, msg, iv, Ref("K1"), Ref("K2"))
\* authenticated but not encrypted (a BMC may clear the encrypted bit per packet)
SessPacketPlain(S, seq4, msg, key1) ==
  LET signed == IntegPadded(Cat(<< B(<<6, 64>>), Var("sidM"), B(seq4), Len16(msg), msg >>))
  IN  Cat(<< Rmcp, signed, Trunc(Hmac(S.integAlg, key1, signed), S.integLen) >>)

\* 13.8: a response carries the requester's sequence number / LUN byte of the request it answers.  The console is free in
\* its choice of sequence numbers (the library happens to use 1 throughout); a BMC is not, so the simulated BMC takes the
\* byte from the request as it received it: message byte 5 of the null-session datagram, or of the decrypted payload
ReqPlain0 == AesDec(Ref("K2"), Slice(Req, 16, 32), SliceDyn(Req, 32, Slice(Req, 14, 16), 16))
\* (the two terms live once in a script file's shared definitions; replies refer to them by name)
EchoNTerm == Slice(Req, 20, 21)
EchoN == Ref("EchoN")
\* (a request that arrives in the null session although a session exists is answered as what it is: the byte is then
\* where a null-session message has it)
EchoSTerm == [op |-> "lookup", key |-> Slice(Req, 5, 6), table |-> [kk \in {"00"} |-> EchoNTerm], default |-> Slice(ReqPlain0, 4, 5)]
EchoS == Ref("EchoS")
EchoDefs == [EchoS |-> EchoSTerm, EchoN |-> EchoNTerm]
EchoWith(k2) == [op |-> "lookup", key |-> Slice(Req, 5, 6), table |-> [kk \in {"00"} |-> EchoNTerm],
                 default |-> Slice(AesDec(k2, Slice(Req, 16, 32), SliceDyn(Req, 32, Slice(Req, 14, 16), 16)), 4, 5)]
MsgRspE(echo, netfnRsp, rsLun, cmd, cc, body) ==
  LET h1 == <<129, netfnRsp * 4>>
      h2 == Cat(<< B(<<32>>), IF rsLun = 0 THEN echo ELSE AddByte(echo, 0, rsLun), B(<<cmd, cc>> \o body) >>)
  IN  Cat(<< B(h1 \o <<Checksum(h1)>>), h2, Cksum(h2) >>)
\* the same packet for a message whose length depends on the request (rule-driven BMC):
\* lengths and pads are then computed where the term is evaluated
DynMsgRsp(netfnRsp, cmd, cc, bodyT) ==
  LET h1 == <<129, netfnRsp * 4>>
      h2 == Cat(<< B(<<32>>), EchoS, B(<<cmd, cc>>), bodyT >>)       \* (used inside sessions only)
  IN  Cat(<< B(h1 \o <<Checksum(h1)>>), h2, Cksum(h2) >>)
DynSessPacket(S, seq4, msgT, iv) ==
  LET pl     == Cat(<< B(iv), Aes(Ref("K2"), B(iv), DynPadSeq(msgT)) >>)
      signed == DynPadFF(Cat(<< B(<<6, 192>>), Var("sidM"), B(seq4), DynLen16(pl), pl >>))
  IN  Cat(<< Rmcp, signed, Trunc(Hmac(S.integAlg, Ref("K1"), signed), S.integLen) >>)
DynNullWrapper(ptype, payloadT) == Cat(<< Rmcp, B(<<6, ptype, 0, 0, 0, 0, 0, 0, 0, 0>>), DynLen16(payloadT), payloadT >>)

\* recipes the (simulated) BMC applies to every in-session request it receives
ReqAuthOk(S) == Eq(Slice(Req, 0 - S.integLen, -1),
                   Trunc(Hmac(S.integAlg, Ref("K1"), Slice(Req, 4, 0 - S.integLen)), S.integLen))
\* decrypted payload of the request: IV = req[16:32], ciphertext = req[32 : 16+len]
ReqPlain(S) == ReqPlain0
SessionDefs(S) == [SIK |-> SIK(S), K1 |-> K1(S), K2 |-> K2(S), EchoS |-> EchoSTerm, EchoN |-> EchoNTerm]
SessionRecipes(S) == [authOK |-> ReqAuthOk(S), plain |-> ReqPlain(S)]

React0 == [k |-> "react", captures |-> <<>>, checks |-> <<>>, datagrams |-> <<>>, fail |-> "none"]
Dg(t, attrs) == [t |-> t, when |-> "now", attrs |-> attrs]
\* rule-driven BMC side of Get Channel Cipher Suites (22.15): one rule per list index, 16-byte chunks
ChunkOf(data, i) == SubSeq(data, 16 * i + 1, IF 16 * i + 16 < Len(data) THEN 16 * i + 16 ELSE Len(data))
IsCipherReq == And(<< Eq(Slice(Req, 5, 6), B(<<0>>)), Eq(Slice(Req, 17, 18), B(<<24>>)), Eq(Slice(Req, 21, 22), B(<<84>>)) >>)
CipherRule(data, i) ==
  [rule |-> "chunk", when |-> << IsCipherReq, Eq(Slice(Req, 24, 25), B(<<128 + i>>)) >>,
   datagrams |-> << Dg(NullWrapper(0, MsgRspE(EchoN, 7, 0, 84, 0, <<14>> \o ChunkOf(data, i))), [kind |-> "chunk", i |-> i]) >>]
\* any other index: an empty chunk (the list has ended)
CipherRuleDefault ==
  [rule |-> "chunk-beyond", when |-> << IsCipherReq >>,
   datagrams |-> << Dg(NullWrapper(0, MsgRspE(EchoN, 7, 0, 84, 0, <<14>>)), [kind |-> "chunk", i |-> 99]) >>]
CipherRules(data) == [i \in 1..((Len(data) \div 16) + 1) |-> CipherRule(data, i - 1)] \o << CipherRuleDefault >>

CallNewV2Session(S) ==
  [k |-> "call", api |-> "NewV2Session",
   args |-> [Username |-> S.uname, Password |-> S.pw, KG |-> S.kg, MaxPrivilegeLevel |-> S.priv,
             PrivilegeLevelLookup |-> S.lookup,
             CipherSuites |-> << [AuthenticationAlgorithm |-> S.authNum, IntegrityAlgorithm |-> S.integNum,
                                   ConfidentialityAlgorithm |-> S.confNum] >>]]
HonestOsr(S)   == [React0 EXCEPT !.captures = << Cap("tag1", OsrTag), Cap("sidM", ConsoleSid) >>,
                                 !.datagrams = << Dg(NullWrapper(17, OpenSessionRspT(S)), [kind |-> "osr"]) >>]
HonestRakp2(S) == [React0 EXCEPT !.captures = << Cap("tag2", R1Tag), Cap("Rm", RmObs), Cap("ublockM", UserBlockObs) >>,
                                 !.datagrams = << Dg(NullWrapper(19, Rakp2T(S)), [kind |-> "rakp2"]) >>]
HonestRakp4(S) == [React0 EXCEPT !.captures = << Cap("tag3", R3Tag) >>,
                                 !.checks = << [name |-> "rakp3auth", t |-> Eq(R3AuthObs, Rakp3Auth(S))] >>,
                                 !.datagrams = << Dg(NullWrapper(21, Rakp4T(S)), [kind |-> "rakp4"]) >>]
ExpectSession(S) == [k |-> "expectSession", sik |-> SIK(S), k1 |-> Kn(S, 1), k2 |-> Kn(S, 2)]
HandshakeSteps(S) == << CallNewV2Session(S), HonestOsr(S), HonestRakp2(S), HonestRakp4(S), ExpectSession(S) >>
=============================================================================
