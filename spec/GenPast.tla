------------------------------ MODULE GenPast -------------------------------
(* A past for a connection.  Every property that speaks of a connection or a
   session holds whatever that connection did before (C17 says so outright;
   for the others it is implied by "for every history").  This module
   evaluates to one list of steps - session-less commands, a cipher suite
   enumeration, an establishment that fails on the password, a session with
   its own credentials, algorithms and BMC session ID that is used and closed,
   and another one whose Close is never answered - that the harness runs on
   the connection *before* a script's own steps (script option `past`).  The
   steps of the past are not part of the trace; a script's expectations are
   exactly those of the same script on a fresh connection.

   The past's BMC side needs no shared definitions: its in-session replies are
   built with the keys of its own scenario P. *)
EXTENDS Crypto, Json, TLC

CONSTANTS Seed, Family, Tier

Suites == << <<1, 1>>, <<2, 2>>, <<3, 4>> >>
PA == Suites[1 + (Seed % 3)][1]
PI == Suites[1 + (Seed % 3)][2]
AuthOf(n)  == CHOOSE a \in AuthAlgs : a.num = n
IntegOf(n) == CHOOSE a \in IntegAlgs : a.num = n
P == [authAlg |-> AuthOf(PA).alg, integAlg |-> IntegOf(PI).alg, authNum |-> PA, integNum |-> PI, confNum |-> 1,
      icvLen |-> AuthOf(PA).icv, integLen |-> IntegOf(PI).len,
      uname |-> <<112, 97, 115, 116>>, pw |-> [i \in 1..(7 + (Seed % 9)) |-> (i * 37 + Seed) % 256], kg |-> <<>>,
      priv |-> 3, lookup |-> FALSE, bmcSid |-> <<77, 1 + (Seed % 200), 2, 3>>,
      rc |-> [i \in 1..16 |-> (i * 5 + 9 + Seed) % 256], guid |-> [i \in 1..16 |-> (40 + i) % 256]]
WrongPw(S) == [S EXCEPT !.pw = [S.pw EXCEPT ![1] = (@ + 1) % 256]]
Past(s) == s @@ [past |-> TRUE]
PastAll(q) == [i \in 1..Len(q) |-> Past(q[i])]

Keyed(j, netfnRsp, cmd, cc, body) ==
  [React0 EXCEPT !.datagrams = << Dg(SessPacketWith(P, 192, Var("sidM"), LE32s(j), MsgRspE(EchoWith(K2(P)), netfnRsp, 0, cmd, cc, body), [i \in 1..16 |-> (i * 3 + j) % 256], K1(P), K2(P)),
                                     [kind |-> "past"]) >>]
Plain(netfnRsp, cmd, cc, body) == [React0 EXCEPT !.datagrams = << Dg(NullWrapper(0, MsgRspE(EchoN, netfnRsp, 0, cmd, cc, body)), [kind |-> "past"]) >>]
Cmd(name, tg) == [k |-> "call", api |-> "Cmd", cmd |-> name, label |-> "past", target |-> tg]
Raw(tg, netfn, cmd, body) == [k |-> "call", api |-> "Raw", label |-> "past", target |-> tg, args |-> [netfn |-> netfn, cmd |-> cmd, lun |-> 0, body |-> body]]
Open(S) == CallNewV2Session(S) @@ [label |-> "past"]
Close == [k |-> "call", api |-> "Close", label |-> "past", target |-> "sess"]
Guid == [i \in 1..16 |-> (200 + i * 3) % 256]
DevId == <<32, 129, 2, 21, 2, 191, 162, 2, 0, 52, 18>>
\* two chunks of cipher suite record data: 16 bytes (two OEM records), then 5 (one standard record)
Chunk0 == <<193, 130, 1, 2, 3, 1, 65, 129, 193, 131, 3, 2, 1, 2, 66, 129>>
Chunk1 == <<192, 3, 1, 65, 129>>

Sessionless ==
  << Cmd("GetSystemGUID", "conn"), Plain(7, 55, 0, Guid),
     Cmd("GetDeviceID", "conn"), Plain(7, 1, 0, DevId),
     Raw("conn", 6, 56, <<142, 4>>), Plain(7, 56, 0, <<1, 128, 20, 2, 0, 0, 0, 0>>),
     \* a refusal without a body
     Cmd("GetSystemGUID", "conn"), Plain(7, 55, 193, <<>>),
     [k |-> "call", api |-> "RetrieveSupportedCipherSuites", label |-> "past"], Plain(7, 84, 0, <<14>> \o Chunk0), Plain(7, 84, 0, <<14>> \o Chunk1) >>
\* an establishment that fails on the password
FailedOpen == << Open(P), HonestOsr(P), [HonestRakp2(P) EXCEPT !.datagrams = << Dg(NullWrapper(19, Rakp2T(WrongPw(P))), [kind |-> "past"]) >>] >>
\* a session of its own, used (one command answered "node busy" first) and closed
CleanSession ==
  << Open(P), HonestOsr(P), HonestRakp2(P), HonestRakp4(P),
     Cmd("GetDeviceID", "sess"), Keyed(1, 7, 1, 0, DevId),
     Raw("sess", 10, 16, <<1, 2, 3>>), Keyed(2, 11, 16, 192, <<>>), Keyed(3, 11, 16, 0, <<9, 8, 7, 6, 5>>),
     Raw("sess", 4, 45, <<5>>), Keyed(4, 5, 45, 0, <<100, 192, 192>>),
     Cmd("GetSystemGUID", "sess"), Keyed(5, 7, 55, 0, Guid),
     Close, Keyed(6, 7, 60, 0, <<>>) >>
\* a session whose Close is never answered
LostClose ==
  << Open(P), HonestOsr(P), HonestRakp2(P), HonestRakp4(P),
     Raw("sess", 10, 35, <<0, 0, 0, 0, 0, 255>>), Keyed(1, 11, 35, 0, <<0, 0, 1, 2, 3>>),
     Close, React0 >>
After == << Cmd("GetSystemGUID", "conn"), Plain(7, 55, 0, Guid) >>
\* what comes last is what the script's own establishment follows: a clean close, a failed one, a failed establishment
\* or session-less traffic, by Seed
PastSteps == PastAll(CASE Seed % 4 = 0 -> Sessionless \o FailedOpen \o LostClose \o CleanSession
                       [] Seed % 4 = 1 -> Sessionless \o FailedOpen \o CleanSession \o LostClose \o After
                       [] Seed % 4 = 2 -> CleanSession \o LostClose \o Sessionless \o FailedOpen
                       [] OTHER -> FailedOpen \o LostClose \o CleanSession \o After \o Sessionless)

ASSUME PrintT(<<"SCRIPT", ToJson([past |-> TRUE, steps |-> PastSteps])>>)
=============================================================================
