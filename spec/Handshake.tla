----------------------------- MODULE Handshake -----------------------------
(* RAKP session establishment (v2session_new.go: newV2Session) with symbolic crypto and a mutation alphabet
   applied to exactly one leg of an otherwise honest exchange.  Ten actions: each
   send, each BMC computation, each console verification.  Hashes are strings
   built from their arguments, so term equality is structural (the usual
   collision-free abstraction).  Every console check is controlled by a guard
   constant; Mutant_Handshake_*.cfg switch one off and TLC must then violate the
   invariant that check carries (C01, C02, C12). *)
EXTENDS Integers, Sequences, FiniteSets, TLC

CONSTANTS G_CheckRakp2, G_CheckRakp4, G_CheckStatus, G_CheckTag, G_CompareAlgs, G_RefuseNone,
          G_KeysPerCall   \* the keyed hashes are built from the credentials of this call (FALSE: kept on the connection
                          \* from an earlier establishment with other credentials)

AuthAlgs == {"sha1", "md5", "sha256"}
IntegAlgs == {"none", "sha1-96", "md5-128", "sha256-128"}
ConfAlgs == {"none", "aes"}
Supported(s) == s[1] \in AuthAlgs /\ s[2] \in IntegAlgs \ {"none"} /\ s[3] = "aes"

Flip(x) == "flip(" \o x \o ")"
RECURSIVE Join(_)
Join(a) == IF a = <<>> THEN "" ELSE Head(a) \o (IF Len(a) > 1 THEN "," ELSE "") \o Join(Tail(a))
H(alg, key, args) == "H[" \o alg \o ";" \o key \o ";" \o Join(args) \o "]"
Trunc(x) == "trunc(" \o x \o ")"

\* staleCred: the BMC still holds the credentials of an earlier establishment; the caller now passes new ones
Mutations == {"none", "wrongPw", "wrongKg", "staleCred",
              "osr.flipSidC", "osr.status", "osr.tag", "osr.trunc", "osr.algWeaker", "osr.algNone", "osr.algUnknown",
              "r2.flipSidM", "r2.flipRc", "r2.flipGuid", "r2.flipAuth", "r2.status", "r2.tag", "r2.trunc",
              "r4.flipIcv", "r4.status", "r4.tag", "r4.trunc"}

VARIABLES pc, mut, prop, useKg, osr, r2, r4, cons, result,
          hist          \* "fresh": first establishment on the connection; "after-old": one with other credentials preceded it
vars == <<pc, mut, prop, useKg, osr, r2, r4, cons, result, hist>>

\* what the two sides know
Cached == ~G_KeysPerCall /\ hist = "after-old"
PwC == IF Cached THEN "oldpw" ELSE "pw"
PwB == CASE mut = "wrongPw" -> "otherpw" [] mut = "staleCred" -> "oldpw" [] OTHER -> "pw"
KgC == IF useKg THEN (IF Cached THEN "oldkg" ELSE "kg") ELSE PwC
KgB == IF useKg THEN (CASE mut = "wrongKg" -> "otherkg" [] mut = "staleCred" -> "oldkg" [] OTHER -> "kg") ELSE PwB
SidM == "sidM"  SidC == "sidC"  Rm == "Rm"  Rc == "Rc"  Guid == "guid"  User == "role|ulen|uname"

Init == /\ pc = "osreq" /\ mut \in Mutations /\ useKg \in BOOLEAN /\ hist \in {"fresh", "after-old"}
        /\ prop \in (AuthAlgs \X IntegAlgs \X ConfAlgs)
        /\ osr = [z |-> 0] /\ r2 = [z |-> 0] /\ r4 = [z |-> 0] /\ cons = [z |-> 0] /\ result = "pending"

Weaker(s) == <<"sha1", "sha1-96", s[3]>>
\* 1-2: Open Session Request / Response as seen by the console
OpenSession ==
  /\ pc = "osreq"
  /\ osr' = [tag |-> IF mut = "osr.tag" THEN "othertag" ELSE "tag",
             status |-> IF mut = "osr.status" THEN "bad" ELSE "ok",
             trunc |-> mut = "osr.trunc",
             sidC |-> IF mut = "osr.flipSidC" THEN Flip(SidC) ELSE SidC,
             algs |-> CASE mut = "osr.algWeaker" -> Weaker(prop)
                        [] mut = "osr.algNone" -> <<prop[1], "none", "none">>
                        [] mut = "osr.algUnknown" -> <<"unknown", prop[2], prop[3]>>
                        [] OTHER -> prop]
  /\ pc' = "osrsp" /\ UNCHANGED <<mut, prop, useKg, r2, r4, cons, result, hist>>
Err(e) == /\ result' = e /\ pc' = "end"
CheckOsr ==
  /\ pc = "osrsp"
  /\ IF osr.trunc THEN Err("error") /\ UNCHANGED cons
     ELSE IF G_CheckTag /\ osr.tag # "tag" THEN Err("error") /\ UNCHANGED cons
     ELSE IF G_CheckStatus /\ osr.status # "ok" THEN Err("error") /\ UNCHANGED cons
     ELSE IF G_CompareAlgs /\ osr.algs # prop THEN Err("error") /\ UNCHANGED cons
     ELSE IF osr.algs[1] \notin AuthAlgs THEN Err("error") /\ UNCHANGED cons       \* algorithmAuthenticationHashGenerator
     ELSE IF osr.algs[2] \notin IntegAlgs \/ osr.algs[3] \notin ConfAlgs THEN Err("error") /\ UNCHANGED cons
     ELSE IF (osr.algs[2] = "none" \/ osr.algs[3] = "none")
             THEN (IF G_RefuseNone THEN Err("error") ELSE Err("panic")) /\ UNCHANGED cons   \* nil hasher / nil cipher layer
     ELSE /\ cons' = [algs |-> osr.algs, sidC |-> osr.sidC] /\ pc' = "rakp1" /\ UNCHANGED result
  /\ UNCHANGED <<mut, prop, useKg, osr, r2, r4, hist>>
\* 3-4: RAKP 1 / 2 ; the BMC computes with its own view (true SidC, SidM, its password)
Rakp12 ==
  /\ pc = "rakp1"
  /\ LET alg == cons.algs[1]
         auth == H(alg, PwB, <<SidM, SidC, Rm, Rc, Guid, User>>)
     IN r2' = [tag |-> IF mut = "r2.tag" THEN "othertag" ELSE "tag",
               status |-> IF mut = "r2.status" THEN "bad" ELSE "ok",
               trunc |-> mut = "r2.trunc",
               sidM |-> IF mut = "r2.flipSidM" THEN Flip(SidM) ELSE SidM,
               rc |-> IF mut = "r2.flipRc" THEN Flip(Rc) ELSE Rc,
               guid |-> IF mut = "r2.flipGuid" THEN Flip(Guid) ELSE Guid,
               auth |-> IF mut = "r2.flipAuth" THEN Flip(auth) ELSE auth]
  /\ pc' = "chk2" /\ UNCHANGED <<mut, prop, useKg, osr, r4, cons, result, hist>>
CheckRakp2 ==
  /\ pc = "chk2"
  /\ LET alg == cons.algs[1]
         want == H(alg, PwC, <<r2.sidM, cons.sidC, Rm, r2.rc, r2.guid, User>>)
     IN IF r2.trunc THEN Err("error")
        ELSE IF G_CheckTag /\ r2.tag # "tag" THEN Err("error")
        ELSE IF G_CheckStatus /\ r2.status # "ok" THEN Err("error")
        ELSE IF G_CheckRakp2 /\ r2.auth # want THEN Err("ErrIncorrectPassword")
        ELSE pc' = "rakp3" /\ UNCHANGED result
  /\ UNCHANGED <<mut, prop, useKg, osr, r2, r4, cons, hist>>
\* 5-6: RAKP 3 / 4 ; the (possibly dishonest) BMC answers regardless
Rakp34 ==
  /\ pc = "rakp3"
  /\ LET alg == cons.algs[1]
         sikB == H(alg, KgB, <<Rm, Rc, User>>)
         icv == Trunc(H(alg, sikB, <<Rm, SidC, Guid>>))
     IN r4' = [tag |-> IF mut = "r4.tag" THEN "othertag" ELSE "tag",
               status |-> IF mut = "r4.status" THEN "bad" ELSE "ok",
               trunc |-> mut = "r4.trunc",
               icv |-> IF mut = "r4.flipIcv" THEN Flip(icv) ELSE icv,
               sikB |-> sikB]
  /\ pc' = "chk4" /\ UNCHANGED <<mut, prop, useKg, osr, r2, cons, result, hist>>
CheckRakp4 ==
  /\ pc = "chk4"
  /\ LET alg == cons.algs[1]
         sikC == H(alg, KgC, <<Rm, r2.rc, User>>)
         want == Trunc(H(alg, sikC, <<Rm, cons.sidC, r2.guid>>))
     IN IF r4.trunc THEN Err("error") /\ UNCHANGED cons
        ELSE IF G_CheckTag /\ r4.tag # "tag" THEN Err("error") /\ UNCHANGED cons
        ELSE IF G_CheckStatus /\ r4.status # "ok" THEN Err("error") /\ UNCHANGED cons
        ELSE IF G_CheckRakp4 /\ r4.icv # want THEN Err("error") /\ UNCHANGED cons
        ELSE /\ result' = "session" /\ pc' = "end" /\ cons' = [cons EXCEPT !.algs = cons.algs] @@ [sik |-> sikC]
  /\ UNCHANGED <<mut, prop, useKg, osr, r2, r4, hist>>
Next == OpenSession \/ CheckOsr \/ Rakp12 \/ CheckRakp2 \/ Rakp34 \/ CheckRakp4
Spec == Init /\ [][Next]_vars

\* ------------------------------------------------------------- properties
Established == result = "session"
C01_KeyAgreement == Established => cons.sik = r4.sikB
C01_HonestSupportedSucceeds == (pc = "end" /\ mut = "none" /\ Supported(prop)) => Established
\* a mutation that leaves the transcript unchanged is not a mutation
Effective == /\ mut # "none" /\ ~(mut = "wrongKg" /\ ~useKg) /\ ~(mut = "osr.algWeaker" /\ Weaker(prop) = prop)
C02_OnlyIfAuthentic == Established => ~Effective
C02_IncorrectPassword == (pc = "end" /\ Supported(prop) /\ mut \in {"wrongPw", "staleCred", "r2.flipSidM", "r2.flipRc", "r2.flipGuid", "r2.flipAuth", "osr.flipSidC"})
                            => result = "ErrIncorrectPassword"
C12_ConfirmedExactly == Established => cons.algs = prop /\ Supported(prop)
C12_NeverPanics == result # "panic"
=============================================================================
