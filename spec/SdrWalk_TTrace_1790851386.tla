---- MODULE SdrWalk_TTrace_1790851386 ----
EXTENDS Sequences, TLCExt, SdrWalk, Toolbox, Naturals, TLC

_expression ==
    LET SdrWalk_TEExpression == INSTANCE SdrWalk_TEExpression
    IN SdrWalk_TEExpression!expression
----

_trace ==
    LET SdrWalk_TETrace == INSTANCE SdrWalk_TETrace
    IN SdrWalk_TETrace!trace
----

_inv ==
    ~(
        TLCGet("level") = Len(_TETrace)
        /\
        resvCtr = (1)
        /\
        acc = ({[id |-> 1, key |-> 0, ver |-> 0]})
        /\
        verCtr = (0)
        /\
        tErase = (1)
        /\
        mods = (0)
        /\
        resv = (1)
        /\
        reqID = (65535)
        /\
        result = ("ok")
        /\
        nextID = (65535)
        /\
        myResv = (1)
        /\
        pc = ("done")
        /\
        round = (1)
        /\
        recs = (<<[id |-> 1, ver |-> 0, full |-> TRUE]>>)
        /\
        hdr = ([id |-> 1, ver |-> 0, full |-> TRUE])
        /\
        tAdd = (1)
        /\
        t0 = (<<1, 1>>)
    )
----

_init ==
    /\ recs = _TETrace[1].recs
    /\ verCtr = _TETrace[1].verCtr
    /\ resvCtr = _TETrace[1].resvCtr
    /\ nextID = _TETrace[1].nextID
    /\ mods = _TETrace[1].mods
    /\ myResv = _TETrace[1].myResv
    /\ tAdd = _TETrace[1].tAdd
    /\ pc = _TETrace[1].pc
    /\ resv = _TETrace[1].resv
    /\ hdr = _TETrace[1].hdr
    /\ t0 = _TETrace[1].t0
    /\ acc = _TETrace[1].acc
    /\ result = _TETrace[1].result
    /\ tErase = _TETrace[1].tErase
    /\ round = _TETrace[1].round
    /\ reqID = _TETrace[1].reqID
----

_next ==
    /\ \E i,j \in DOMAIN _TETrace:
        /\ \/ /\ j = i + 1
              /\ i = TLCGet("level")
        /\ recs  = _TETrace[i].recs
        /\ recs' = _TETrace[j].recs
        /\ verCtr  = _TETrace[i].verCtr
        /\ verCtr' = _TETrace[j].verCtr
        /\ resvCtr  = _TETrace[i].resvCtr
        /\ resvCtr' = _TETrace[j].resvCtr
        /\ nextID  = _TETrace[i].nextID
        /\ nextID' = _TETrace[j].nextID
        /\ mods  = _TETrace[i].mods
        /\ mods' = _TETrace[j].mods
        /\ myResv  = _TETrace[i].myResv
        /\ myResv' = _TETrace[j].myResv
        /\ tAdd  = _TETrace[i].tAdd
        /\ tAdd' = _TETrace[j].tAdd
        /\ pc  = _TETrace[i].pc
        /\ pc' = _TETrace[j].pc
        /\ resv  = _TETrace[i].resv
        /\ resv' = _TETrace[j].resv
        /\ hdr  = _TETrace[i].hdr
        /\ hdr' = _TETrace[j].hdr
        /\ t0  = _TETrace[i].t0
        /\ t0' = _TETrace[j].t0
        /\ acc  = _TETrace[i].acc
        /\ acc' = _TETrace[j].acc
        /\ result  = _TETrace[i].result
        /\ result' = _TETrace[j].result
        /\ tErase  = _TETrace[i].tErase
        /\ tErase' = _TETrace[j].tErase
        /\ round  = _TETrace[i].round
        /\ round' = _TETrace[j].round
        /\ reqID  = _TETrace[i].reqID
        /\ reqID' = _TETrace[j].reqID

\* Uncomment the ASSUME below to write the states of the error trace
\* to the given file in Json format. Note that you can pass any tuple
\* to `JsonSerialize`. For example, a sub-sequence of _TETrace.
    \* ASSUME
    \*     LET J == INSTANCE Json
    \*         IN J!JsonSerialize("SdrWalk_TTrace_1790851386.json", _TETrace)

=============================================================================

 Note that you can extract this module `SdrWalk_TEExpression`
  to a dedicated file to reuse `expression` (the module in the 
  dedicated `SdrWalk_TEExpression.tla` file takes precedence 
  over the module `SdrWalk_TEExpression` below).

---- MODULE SdrWalk_TEExpression ----
EXTENDS Sequences, TLCExt, SdrWalk, Toolbox, Naturals, TLC

expression == 
    [
        \* To hide variables of the `SdrWalk` spec from the error trace,
        \* remove the variables below.  The trace will be written in the order
        \* of the fields of this record.
        recs |-> recs
        ,verCtr |-> verCtr
        ,resvCtr |-> resvCtr
        ,nextID |-> nextID
        ,mods |-> mods
        ,myResv |-> myResv
        ,tAdd |-> tAdd
        ,pc |-> pc
        ,resv |-> resv
        ,hdr |-> hdr
        ,t0 |-> t0
        ,acc |-> acc
        ,result |-> result
        ,tErase |-> tErase
        ,round |-> round
        ,reqID |-> reqID
        
        \* Put additional constant-, state-, and action-level expressions here:
        \* ,_stateNumber |-> _TEPosition
        \* ,_recsUnchanged |-> recs = recs'
        
        \* Format the `recs` variable as Json value.
        \* ,_recsJson |->
        \*     LET J == INSTANCE Json
        \*     IN J!ToJson(recs)
        
        \* Lastly, you may build expressions over arbitrary sets of states by
        \* leveraging the _TETrace operator.  For example, this is how to
        \* count the number of times a spec variable changed up to the current
        \* state in the trace.
        \* ,_recsModCount |->
        \*     LET F[s \in DOMAIN _TETrace] ==
        \*         IF s = 1 THEN 0
        \*         ELSE IF _TETrace[s].recs # _TETrace[s-1].recs
        \*             THEN 1 + F[s-1] ELSE F[s-1]
        \*     IN F[_TEPosition - 1]
    ]

=============================================================================



Parsing and semantic processing can take forever if the trace below is long.
 In this case, it is advised to uncomment the module below to deserialize the
 trace from a generated binary file.

\*
\*---- MODULE SdrWalk_TETrace ----
\*EXTENDS IOUtils, SdrWalk, TLC
\*
\*trace == IODeserialize("SdrWalk_TTrace_1790851386.bin", TRUE)
\*
\*=============================================================================
\*

---- MODULE SdrWalk_TETrace ----
EXTENDS SdrWalk, TLC

trace == 
    <<
    ([resvCtr |-> 0,acc |-> {},verCtr |-> 0,tErase |-> 1,mods |-> 0,resv |-> 0,reqID |-> 0,result |-> "none",nextID |-> 0,myResv |-> 0,pc |-> "info1",round |-> 1,recs |-> <<[id |-> 1, ver |-> 0, full |-> TRUE]>>,hdr |-> [id |-> 0, ver |-> 0, full |-> FALSE],tAdd |-> 1,t0 |-> <<0, 0>>]),
    ([resvCtr |-> 0,acc |-> {},verCtr |-> 0,tErase |-> 1,mods |-> 0,resv |-> 0,reqID |-> 0,result |-> "none",nextID |-> 0,myResv |-> 0,pc |-> "reserve",round |-> 1,recs |-> <<[id |-> 1, ver |-> 0, full |-> TRUE]>>,hdr |-> [id |-> 0, ver |-> 0, full |-> FALSE],tAdd |-> 1,t0 |-> <<1, 1>>]),
    ([resvCtr |-> 1,acc |-> {},verCtr |-> 0,tErase |-> 1,mods |-> 0,resv |-> 1,reqID |-> 0,result |-> "none",nextID |-> 0,myResv |-> 1,pc |-> "hdr",round |-> 1,recs |-> <<[id |-> 1, ver |-> 0, full |-> TRUE]>>,hdr |-> [id |-> 0, ver |-> 0, full |-> FALSE],tAdd |-> 1,t0 |-> <<1, 1>>]),
    ([resvCtr |-> 1,acc |-> {},verCtr |-> 0,tErase |-> 1,mods |-> 0,resv |-> 1,reqID |-> 0,result |-> "none",nextID |-> 65535,myResv |-> 1,pc |-> "body",round |-> 1,recs |-> <<[id |-> 1, ver |-> 0, full |-> TRUE]>>,hdr |-> [id |-> 1, ver |-> 0, full |-> TRUE],tAdd |-> 1,t0 |-> <<1, 1>>]),
    ([resvCtr |-> 1,acc |-> {[id |-> 1, key |-> 0, ver |-> 0]},verCtr |-> 0,tErase |-> 1,mods |-> 0,resv |-> 1,reqID |-> 0,result |-> "none",nextID |-> 65535,myResv |-> 1,pc |-> "advance",round |-> 1,recs |-> <<[id |-> 1, ver |-> 0, full |-> TRUE]>>,hdr |-> [id |-> 1, ver |-> 0, full |-> TRUE],tAdd |-> 1,t0 |-> <<1, 1>>]),
    ([resvCtr |-> 1,acc |-> {[id |-> 1, key |-> 0, ver |-> 0]},verCtr |-> 0,tErase |-> 1,mods |-> 0,resv |-> 1,reqID |-> 65535,result |-> "none",nextID |-> 65535,myResv |-> 1,pc |-> "info2",round |-> 1,recs |-> <<[id |-> 1, ver |-> 0, full |-> TRUE]>>,hdr |-> [id |-> 1, ver |-> 0, full |-> TRUE],tAdd |-> 1,t0 |-> <<1, 1>>]),
    ([resvCtr |-> 1,acc |-> {[id |-> 1, key |-> 0, ver |-> 0]},verCtr |-> 0,tErase |-> 1,mods |-> 0,resv |-> 1,reqID |-> 65535,result |-> "ok",nextID |-> 65535,myResv |-> 1,pc |-> "done",round |-> 1,recs |-> <<[id |-> 1, ver |-> 0, full |-> TRUE]>>,hdr |-> [id |-> 1, ver |-> 0, full |-> TRUE],tAdd |-> 1,t0 |-> <<1, 1>>])
    >>
----


=============================================================================

---- CONFIG SdrWalk_TTrace_1790851386 ----
CONSTANTS
    IDs = { 0 , 1 , 5 }
    MaxRecs = 3
    MaxMods = 2
    MaxRounds = 3
    G_Compare = TRUE
    G_KeyByOwnID = FALSE
    G_Reserve = TRUE

INVARIANT
    _inv

CHECK_DEADLOCK
    \* CHECK_DEADLOCK off because of PROPERTY or INVARIANT above.
    FALSE

INIT
    _init

NEXT
    _next

CONSTANT
    _TETrace <- _trace

ALIAS
    _expression
=============================================================================
\* Generated on Thu Oct 01 10:43:08 UTC 2026