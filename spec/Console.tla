------------------------------ MODULE Console ------------------------------
(* One connection of the console library and its BMC/network environment.

   Each action mirrors one block of v2sessionless.go (buildAndSendCommand) or
   v2session.go (buildAndSend): start of call, one attempt (transmission), the
   environment's reaction, the single read that follows, classification, the
   retry decision, the return.  The environment's fault alphabet is explicit.
   `sock` is the UDP socket's receive queue: that is what makes stale and
   duplicated replies a history phenomenon.

   The acceptance predicate is Decodable(d) /\ Guards(d), with each guard
   controlled by a CONSTANT so that Mutant_*.cfg can show it is individually
   necessary for the invariant it carries.  With all guards TRUE this is the
   intended behaviour; the same Next, with the history variable, generates the
   scripts that are replayed on the real library (GenConsole.tla), and the
   predicted observations (`sent`, `results`) travel with each script so that
   trace validation can compare the real execution with this reference model. *)
EXTENDS Integers, Sequences, FiniteSets, TLC

CONSTANTS InSession,      \* TRUE: V2Session.SendCommand; FALSE: V2Sessionless.SendCommand
          Cmds,           \* command names
          MaxCalls, MaxAttempts,
          EnvKinds,       \* enabled environment outcomes
          EnvCodes,       \* completion-code classes the environment may answer with
          DupCodes,       \* ... for delayed and duplicated replies
          StaleCodes,     \* ... for replies that belong to another command
          NeedsBody,      \* commands whose response layer cannot decode an empty body
          Refused,        \* commands whose request layer refuses to serialise (e.g. Set Session Privilege Level 01h)

          G_Flag, G_Sid, G_Match, G_Rebuild, G_PreInc, G_Temp, G_Terminal,
          G_SeqAfterBuild \* the session sequence number is taken only once the packet has been serialised

Codes == {"ok", "err", "busy", "tmo"}
Temporary == {"busy", "tmo"}             \* node busy 0xC0, timeout 0xC3 (completion_code.go: IsTemporary)
AllKinds == {"final", "garbage", "trunc", "lost", "xerr", "late", "dup", "stale",
             "badsig", "unauth", "unauthmine", "wrongsid", "badpad"}
ASSUME EnvKinds \subseteq AllKinds /\ EnvCodes \subseteq Codes /\ DupCodes \subseteq Codes /\ StaleCodes \subseteq Codes

VARIABLES pc,       \* "idle" | "attempt" | "env" | "recv"
          calls,    \* number of calls started
          cur,      \* current call: [cmd, n (attempts so far), dead (terminal transport failure seen)]
          seqIn,    \* AuthenticatedSequenceNumbers.Inbound
          sock,     \* datagrams waiting in the socket (FIFO)
          late,     \* datagrams that will arrive after the current attempt's deadline
          ctx,      \* "live" | "expired"
          sent,     \* ghost: log of transmissions [call, cmd, sid, seq, enc]
          results,  \* ghost: log of returns [call, cmd, err, code, from]
          m,        \* exported metrics
          g,        \* ghost counts the metrics are compared with
          hist      \* history of environment choices (script generation only)
vars == <<pc, calls, cur, seqIn, sock, late, ctx, sent, results, m, g, hist>>

NoDgram == [forCmd |-> "none", cc |-> "ok", dec |-> FALSE, sig |-> FALSE, flag |-> FALSE,
            sid |-> "null", bodyOK |-> FALSE, call |-> 0, n |-> 0, kind |-> "none"]
Zero(S) == [x \in S |-> 0]

Init == /\ pc = "idle" /\ calls = 0 /\ cur = [cmd |-> "none", n |-> 0, dead |-> FALSE]
        /\ seqIn = 0 /\ sock = <<>> /\ late = <<>> /\ ctx = "live"
        /\ sent = <<>> /\ results = <<>> /\ hist = <<>>
        /\ m = [attempts |-> Zero(Cmds), failures |-> Zero(Cmds), retries |-> 0, responses |-> Zero(Codes)]
        /\ g = [calls |-> Zero(Cmds), errs |-> Zero(Cmds), tx |-> 0, firsttx |-> 0, valid |-> Zero(Codes)]

\* ------------------------------------------------------------------ console
\* SendCommand entry: attempts metric, layers initialised, context fresh
Start(c) ==
  /\ pc = "idle" /\ calls < MaxCalls
  /\ calls' = calls + 1 /\ cur' = [cmd |-> c, n |-> 0, dead |-> FALSE] /\ ctx' = "live"
  /\ m' = [m EXCEPT !.attempts[c] = @ + 1]
  /\ g' = [g EXCEPT !.calls[c] = @ + 1]
  /\ hist' = Append(hist, [k |-> "call", cmd |-> c])
  /\ pc' = "attempt"
  /\ UNCHANGED <<seqIn, sock, late, sent, results>>

\* one iteration of the retry closure up to transport.Send
\* a request that cannot be serialised: "not a retryable error" - the call returns it, nothing is transmitted and
\* (G_SeqAfterBuild) no sequence number is used up
Refuse ==
  /\ pc = "attempt" /\ cur.cmd \in Refused
  /\ seqIn' = IF InSession /\ ~G_SeqAfterBuild THEN seqIn + 1 ELSE seqIn
  /\ results' = Append(results, [call |-> calls, cmd |-> cur.cmd, err |-> TRUE, code |-> "none", from |-> NoDgram])
  /\ m' = [m EXCEPT !.failures[cur.cmd] = @ + 1]
  /\ g' = [g EXCEPT !.errs[cur.cmd] = @ + 1]
  /\ pc' = "idle"
  /\ UNCHANGED <<calls, cur, sock, late, ctx, sent, hist>>

Attempt ==
  /\ pc = "attempt" /\ cur.cmd \notin Refused
  /\ LET first == cur.n = 0
         \* G_Rebuild FALSE models the closure re-serialising from layers that the
         \* previous response decode overwrote (addresses, NetFn, session ID)
         enc == IF first \/ G_Rebuild \/ ~InSession THEN cur.cmd ELSE "clobbered"
         sid == IF ~InSession THEN "null" ELSE IF first \/ G_Rebuild THEN "bmc" ELSE "clobbered"
         s   == IF ~InSession THEN 0 ELSE IF G_PreInc THEN seqIn + 1 ELSE seqIn
     IN /\ seqIn' = IF InSession THEN seqIn + 1 ELSE 0
        /\ sent' = Append(sent, [call |-> calls, cmd |-> cur.cmd, sid |-> sid, seq |-> s, enc |-> enc])
        /\ m' = [m EXCEPT !.retries = @ + (IF first THEN 0 ELSE 1)]
        /\ g' = [g EXCEPT !.tx = @ + 1, !.firsttx = @ + (IF first THEN 1 ELSE 0)]
  /\ cur' = [cur EXCEPT !.n = @ + 1]
  /\ pc' = "env"
  /\ UNCHANGED <<calls, sock, late, ctx, results, hist>>

\* --------------------------------------------------------------- environment
OtherCmds(c) == (Cmds \ Refused) \ {c}
Auth(c, cc) == [forCmd |-> c, cc |-> cc, dec |-> TRUE, sig |-> TRUE, flag |-> TRUE,
                sid |-> IF InSession THEN "mine" ELSE "null",
                \* a non-normal code comes without a body: SendCommand still tries to decode one
                \* and returns (code, error) when the response layer needs bytes (connection.go)
                bodyOK |-> (cc = "ok" \/ c \notin NeedsBody),
                call |-> calls, n |-> cur.n, kind |-> "final"]
Outcome(o) ==   \* datagrams arriving <<now, late>> for outcome o
  LET c == cur.cmd IN
  CASE o.kind = "final"    -> << <<Auth(c, o.cc)>>, <<>> >>
    [] o.kind = "trunc"    -> << <<[Auth(c, "ok") EXCEPT !.bodyOK = (c \notin NeedsBody), !.kind = "trunc"]>>, <<>> >>
    [] o.kind = "garbage"  -> << <<[Auth(c, "ok") EXCEPT !.dec = FALSE, !.sig = FALSE, !.kind = "garbage"]>>, <<>> >>
    [] o.kind = "lost"     -> << <<>>, <<>> >>
    [] o.kind = "xerr"     -> << <<>>, <<>> >>
    [] o.kind = "late"     -> << <<>>, <<[Auth(c, o.cc) EXCEPT !.kind = "late"]>> >>
    [] o.kind = "dup"      -> << <<Auth(c, o.cc)>>, <<[Auth(c, o.cc) EXCEPT !.kind = "dup"]>> >>
    [] o.kind = "stale"    -> << <<[Auth(o.other, o.cc) EXCEPT !.kind = "stale"]>>, <<>> >>
    [] o.kind = "badsig"   -> << <<[Auth(c, "ok") EXCEPT !.sig = FALSE, !.kind = "badsig"]>>, <<>> >>
    [] o.kind = "unauth"   -> << <<[Auth(c, "ok") EXCEPT !.sig = FALSE, !.flag = FALSE, !.sid = "null", !.kind = "unauth"]>>, <<>> >>
    \* no AuthCode and the authenticated flag cleared, but addressed to this session's ID (which travels in clear)
    [] o.kind = "unauthmine" -> << <<[Auth(c, "ok") EXCEPT !.sig = FALSE, !.flag = FALSE, !.kind = "unauthmine"]>>, <<>> >>
    [] o.kind = "wrongsid" -> << <<[Auth(c, "ok") EXCEPT !.sid = "other", !.kind = "wrongsid"]>>, <<>> >>
    [] o.kind = "badpad"   -> << <<[Auth(c, "ok") EXCEPT !.dec = FALSE, !.kind = "badpad"]>>, <<>> >>

Outcomes ==
  LET cc(k) == {[kind |-> k, cc |-> x] : x \in (IF k = "final" THEN EnvCodes ELSE DupCodes)}
      plain(k) == {[kind |-> k, cc |-> "ok"]}
      sess == IF InSession THEN {"badsig", "unauth", "unauthmine", "wrongsid", "badpad"} ELSE {}
  IN  UNION { IF k \in {"final", "late", "dup"} THEN cc(k)
              ELSE IF k = "stale" THEN {[kind |-> k, cc |-> y, other |-> x] : x \in OtherCmds(cur.cmd), y \in StaleCodes}
              ELSE IF k \in sess \cup {"garbage", "trunc", "lost", "xerr"} THEN plain(k)
              ELSE {} : k \in EnvKinds }

\* The context is cancelled by the environment during the last permitted
\* attempt, which is how the bounded model (and each script) ends a call that
\* never receives a final answer.
Env(o) ==
  /\ pc = "env"
  /\ LET out == Outcome(o)
         lastAttempt == cur.n = MaxAttempts
     IN /\ sock' = sock \o out[1]
        /\ late' = out[2]
        /\ ctx' = IF lastAttempt THEN "expired" ELSE ctx
        /\ cur' = [cur EXCEPT !.dead = (o.kind = "xerr")]
        /\ hist' = Append(hist, [k |-> "env", o |-> o, call |-> calls, n |-> cur.n, cmd |-> cur.cmd,
                                 cancel |-> lastAttempt])
  /\ pc' = "recv"
  /\ UNCHANGED <<calls, seqIn, sent, results, m, g>>

\* ------------------------------------------------------- receive and classify
\* What the wrapper, confidentiality and message decoders do: a set
\* authenticated flag makes the wrapper verify the AuthCode under K1.
Decodable(d) == d.dec /\ ((InSession /\ d.flag) => d.sig)
\* Guards added on top of decodability by the retry closure.
Guards(d) == /\ (InSession /\ G_Flag) => d.flag
             /\ (InSession /\ G_Sid) => d.sid = "mine"
             /\ G_Match => d.forCmd = cur.cmd
Accept(d) == Decodable(d) /\ Guards(d)
IsTemp(cc) == G_Temp /\ cc \in Temporary

Finish(err, code, d) ==
  /\ results' = Append(results, [call |-> calls, cmd |-> cur.cmd, err |-> err, code |-> code, from |-> d])
  /\ m' = [m EXCEPT !.failures[cur.cmd] = @ + (IF err THEN 1 ELSE 0)]
  /\ g' = [g EXCEPT !.errs[cur.cmd] = @ + (IF err THEN 1 ELSE 0)]
  /\ pc' = "idle"

Retry ==  \* backoff.Retry: stop with the context's error once it has expired
  IF ctx = "expired" THEN Finish(TRUE, "none", NoDgram)
  ELSE pc' = "attempt" /\ UNCHANGED <<results, m, g>>

Recv ==
  /\ pc = "recv"
  /\ IF cur.dead \/ sock = <<>>
     THEN \* transport error, or the read deadline passed with nothing queued
          /\ sock' = sock \o late /\ late' = <<>>
          /\ IF InSession /\ G_Terminal
             THEN Finish(TRUE, "none", NoDgram)            \* terminalErr: no further transmissions
             ELSE Retry
     ELSE LET d == Head(sock) IN
          /\ sock' = Tail(sock) \o late /\ late' = <<>>
          /\ IF ~Accept(d) THEN Retry
             ELSE IF IsTemp(d.cc)
                  THEN /\ IF ctx = "expired"
                          THEN /\ results' = Append(results, [call |-> calls, cmd |-> cur.cmd, err |-> TRUE, code |-> "none", from |-> NoDgram])
                               /\ m' = [m EXCEPT !.responses[d.cc] = @ + 1, !.failures[cur.cmd] = @ + 1]
                               /\ g' = [g EXCEPT !.valid[d.cc] = @ + 1, !.errs[cur.cmd] = @ + 1]
                               /\ pc' = "idle"
                          ELSE /\ m' = [m EXCEPT !.responses[d.cc] = @ + 1]
                               /\ g' = [g EXCEPT !.valid[d.cc] = @ + 1]
                               /\ pc' = "attempt" /\ UNCHANGED results
                  ELSE \* final answer: the body is decoded by SendCommand; a body that does
                       \* not decode yields (code, error) as connection.go documents
                       /\ results' = Append(results, [call |-> calls, cmd |-> cur.cmd, err |-> ~d.bodyOK, code |-> d.cc, from |-> d])
                       /\ m' = [m EXCEPT !.responses[d.cc] = @ + 1, !.failures[cur.cmd] = @ + (IF d.bodyOK THEN 0 ELSE 1)]
                       /\ g' = [g EXCEPT !.valid[d.cc] = @ + 1, !.errs[cur.cmd] = @ + (IF d.bodyOK THEN 0 ELSE 1)]
                       /\ pc' = "idle"
  /\ UNCHANGED <<calls, cur, seqIn, ctx, sent, hist>>

Next == (\E c \in Cmds : Start(c)) \/ Attempt \/ Refuse \/ (\E o \in Outcomes : Env(o)) \/ Recv
Spec == Init /\ [][Next]_vars
FairSpec == Spec /\ WF_vars(Attempt) /\ WF_vars(Refuse) /\ WF_vars(Recv) /\ WF_vars(\E o \in Outcomes : Env(o))

\* ------------------------------------------------------------------ properties
LastSent == sent[Len(sent)]
LastRes  == results[Len(results)]
TypeOK == pc \in {"idle", "attempt", "env", "recv"} /\ calls \in 0..MaxCalls /\ cur.n \in 0..MaxAttempts

\* C09: the i-th in-session transmission carries sequence number i; outside a
\* session the wrapper is the null session (ID 0, sequence 0)
C09_SeqConsecutive == (InSession /\ sent # <<>>) => LastSent.seq = Len(sent)
C09_SessionlessNull == (~InSession /\ sent # <<>>) => LastSent.seq = 0 /\ LastSent.sid = "null"
C09_Monotone == [][seqIn' >= seqIn]_vars
\* C10: every transmission of a call is a complete, correctly addressed encoding of the called command
C10_SameCommand == sent # <<>> => /\ LastSent.enc = LastSent.cmd
                                   /\ LastSent.sid = (IF InSession THEN "bmc" ELSE "null")
\* C10: a returned code is final; it is the code of the datagram it came from
C10_FinalCode == (results # <<>> /\ LastRes.code # "none") =>
                    LastRes.code \notin Temporary /\ LastRes.code = LastRes.from.cc
\* C10: inside a session a transport failure ends the command: no transmission follows it
C10_NoTxAfterTransportFailure == [][(InSession /\ cur.dead /\ pc = "recv") => pc' # "attempt"]_vars
\* C10: outside a session a lost reply is retried while the context lives
C10_SessionlessRetriesLost == [][(~InSession /\ pc = "recv" /\ sock = <<>> /\ ctx = "live") => pc' = "attempt"]_vars
\* C11: a returned code/value comes from a response to the command that was sent
C11_Match == (results # <<>> /\ LastRes.code # "none") => LastRes.from.forCmd = LastRes.cmd
\* C04: inside a session only authentic datagrams addressed to this session complete a command
C04_Authentic == (InSession /\ results # <<>> /\ LastRes.code # "none") =>
                    LastRes.from.sig /\ LastRes.from.flag /\ LastRes.from.sid = "mine" /\ LastRes.from.dec
\* C13 (design level): a call that returned without error received a valid response
C13_SuccessHasResponse == (results # <<>> /\ ~LastRes.err) => LastRes.from.kind # "none"
\* C18: the exported counters equal the independent ghost counts
C18_Metrics == /\ \A c \in Cmds : m.attempts[c] = g.calls[c] /\ m.failures[c] = g.errs[c]
               /\ m.retries = g.tx - g.firsttx
               /\ \A c \in Codes : m.responses[c] = g.valid[c]
C18_FailuresAreErrors == \A c \in Cmds :
     m.failures[c] = Cardinality({i \in 1..Len(results) : results[i].cmd = c /\ results[i].err})
\* every call returns (bounded model: the environment expires the context at the last attempt)
Terminates == <>[](pc = "idle")

\* state-space reduction for exhaustive runs: the ghost logs are represented by
\* their newest entries (all invariants above only read those) and `hist` is dropped
View == <<pc, calls, cur, seqIn, sock, late, ctx, Len(sent), IF sent = <<>> THEN 0 ELSE LastSent,
          Len(results), IF results = <<>> THEN 0 ELSE LastRes, m, g>>
=============================================================================
