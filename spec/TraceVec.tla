------------------------------ MODULE TraceVec ------------------------------
(* Validation of vector results.  Each line is one vector the harness applied
   to a library layer, with TLC's own expectation (computed from Layout /
   LayerTables / Prims / Wire when the vector was generated) copied through:

     kind "decode":     got = [err, value, payload] | [panic]; stable = the result did not
                        depend on what followed the datagram in the receive buffer
     kind "reuse":      got = decode into a used value, fresh = decode into a new one
     kind "serialize":  got = [err, bytes]

   exp = [err |-> BOOLEAN, value |-> fields the specification fixes, payload (optional), bytes]
   or [any |-> TRUE] when only totality is specified (C05). *)
EXTENDS Integers, Sequences, FiniteSets, Json, IOUtils, TLC

Trace == ndJsonDeserialize(IOEnv.VERIF_TRACE)
Cfg   == JsonDeserialize(IOEnv.VERIF_TRACECFG)
Known == Cfg.known

VARIABLES l, viol
vars == <<l, viol>>
Init == l = 1 /\ viol = {}
Ev == Trace[l]
Has(r, f) == f \in DOMAIN r
Check(prop, pred_, ok, ctx) == IF ok THEN {} ELSE {[prop |-> prop, pred |-> pred_, ctx |-> ctx]}
Ctx(e) == [layer |-> e.layer, class |-> IF Has(e, "class") THEN e.class ELSE "-"]
\* the decoded struct agrees with the specification on every field the specification fixes
Agrees(got, want) == \A k \in DOMAIN want : k \in DOMAIN got /\ got[k] = want[k]

DecodeViol(e) ==
  LET g == e.got  x == e.exp  c == Ctx(e) IN
  Check("C05", "decoder-total-no-panic", ~Has(g, "panic"), c)
  \cup Check("C05", "result-independent-of-bytes-beyond-datagram", ~Has(e, "stable") \/ e.stable, c)
  \cup (IF Has(g, "panic") /\ ~Has(x, "any") THEN Check(e.prop, IF x.err THEN "malformed-input-rejected" ELSE "valid-encoding-accepted", FALSE, c) ELSE {})
  \cup (IF Has(g, "panic") \/ Has(x, "any") THEN {}
        ELSE IF x.err THEN Check(e.prop, "malformed-input-rejected", g.err, c)
        ELSE Check(e.prop, "valid-encoding-accepted", ~g.err, c)
             \cup (IF g.err THEN {} ELSE Check(e.prop, "decodes-to-specified-values", Agrees(g.value, x.value), c))
             \cup (IF g.err \/ ~Has(x, "payload") THEN {} ELSE Check(e.prop, "inner-payload-as-specified", Has(g, "payload") /\ g.payload = x.payload, c)))
ReuseViol(e) ==
  LET g == e.got  c == Ctx(e) IN
  Check("C05", "decoder-total-no-panic", ~Has(g, "panic") /\ ~Has(e.fresh, "panic"), c)
  \cup (IF Has(g, "panic") \/ Has(e.fresh, "panic") THEN {}
        ELSE Check("C17", "reused-value-equals-fresh-decode", g = e.fresh, c)
             \cup (IF Has(e.exp, "any") THEN {}
                   ELSE IF e.exp.err THEN {}
                   ELSE IF g.err THEN Check(e.prop, "valid-encoding-accepted", FALSE, c)
                   ELSE Check(e.prop, IF e.prop = "C17" THEN "reused-value-equals-specification"
                                      ELSE "decodes-to-specified-values-whatever-was-decoded-before", Agrees(g.value, e.exp.value), c)))
SerViol(e) ==
  LET g == e.got  x == e.exp  c == Ctx(e) IN
  Check("C05", "serializer-no-panic", ~Has(g, "panic"), c)
  \cup (IF Has(g, "panic") THEN {}
        ELSE IF x.err THEN Check(e.prop, "invalid-value-rejected-not-encoded", g.err, c)
        ELSE Check(e.prop, "valid-value-encoded", ~g.err, c)
             \cup (IF g.err THEN {} ELSE Check(e.prop, "encoded-exactly-as-specified", g.bytes = x.bytes, c))
             \cup (IF ~Has(g, "errReused") THEN {}
                   ELSE Check(e.prop, "encoding-does-not-depend-on-what-the-buffer-held-before",
                              g.errReused = g.err /\ (~g.err => (Has(g, "bytesReused") /\ g.bytesReused = x.bytes)), c)))
AesOne(e, r, which) ==
  LET x == e.exp  c == [layer |-> "AES128CBC", class |-> which] IN
  Check("C05", "serializer-no-panic", ~Has(r, "panic"), c)
  \cup Check("C08", "aes-serialises", ~r.err, c)
  \cup (IF r.err \/ Has(r, "panic") THEN {}
        ELSE Check("C08", "aes-ciphertext-decrypts-to-payload-and-specified-pad", Has(r, "plain") /\ r.plain = x.plain /\ r.len = 16 + Len(x.plain), c)
             \cup Check("C08", "aes-decode-returns-original-payload", r.decErr = FALSE /\ Has(r, "decPayload") /\ r.decPayload = x.payload, c))
AesViol(e) == AesOne(e, e.got.fresh, "fresh-buffer") \cup AesOne(e, e.got.reused, "reused-buffer")
              \cup (IF Has(e.got.fresh, "iv") /\ Has(e.got.reused, "iv")
                    THEN Check("C03", "iv-fresh", e.got.fresh.iv # e.got.reused.iv, [layer |-> "AES128CBC", class |-> "two-serialisations"]) ELSE {})
AesSeqViol(e) ==
  LET c == [layer |-> "AES128CBC", class |-> "decode-sequence"] IN
  UNION { LET r == e.got[i] IN
          Check("C05", "decoder-total-no-panic", ~Has(r, "panic"), c)
          \cup Check("C08", "aes-decode-returns-original-payload-on-a-used-layer",
                     ~Has(r, "panic") /\ ~r.err /\ Has(r, "payload") /\ r.payload = e.packets[i].payload, c)
          : i \in 1..Len(e.got) }
  \cup Check("C08", "aes-decode-returns-original-payload-on-a-used-layer", Len(e.got) = Len(e.packets), c)
  \* the same layer value serialising each payload in turn: every packet decrypts (with its own IV) to payload + 01,02,..,n,n
  \cup (IF ~Has(e, "ser") THEN {} ELSE
        UNION { LET r == e.ser[i] IN
                Check("C08", "aes-serialise-is-the-specification-encryption-on-a-used-layer",
                      ~Has(r, "panic") /\ ~r.err /\ Has(r, "plain") /\ r.plain = e.packets[i].padded, c)
                : i \in 1..Len(e.ser) }
        \cup Check("C08", "aes-serialise-is-the-specification-encryption-on-a-used-layer", Len(e.ser) = Len(e.packets), c))
V2SeqViol(e) ==
  LET c == Ctx(e) IN
  UNION { LET r == e.got[i]  x == e.steps[i].exp  after == i > 1 IN
          Check("C05", "decoder-total-no-panic", ~Has(r, "panic"), c)
          \cup (IF Has(r, "panic") THEN Check("C08", "round-trip-holds-at-every-point-of-a-packet-sequence", FALSE, c)
                ELSE LET ok == IF e.steps[i].op = "serialize" THEN (~r.err /\ r.bytes = x.bytes)
                               ELSE IF x.err THEN r.err
                               ELSE (~r.err /\ Agrees(r.value, x.value) /\ Has(r, "payload") /\ r.payload = x.payload)
                     IN Check("C08", "round-trip-holds-at-every-point-of-a-packet-sequence", ok, c)
                        \cup (IF after THEN Check("C17", "used-wrapper-and-hash-behave-like-fresh-ones", ok, c) ELSE {})
                        \cup (IF x.err THEN Check("C07", "malformed-input-rejected", ok, c) ELSE {}))
          : i \in 1..Len(e.got) }
  \cup Check("C08", "round-trip-holds-at-every-point-of-a-packet-sequence", Len(e.got) = Len(e.steps), c)
NewViol == LET e == Ev IN
  IF Has(e, "harnessError") THEN Check("HARNESS", "vector", FALSE, [layer |-> "?", class |-> "?"])
  ELSE IF e.kind = "decode" THEN DecodeViol(e)
  ELSE IF e.kind = "reuse" THEN ReuseViol(e)
  ELSE IF e.kind = "serialize" THEN SerViol(e)
  ELSE IF e.kind = "aes" THEN AesViol(e)
  ELSE IF e.kind = "aesseq" THEN AesSeqViol(e)
  ELSE IF e.kind = "v2seq" THEN V2SeqViol(e)
  ELSE IF e.kind = "func" THEN Check("C05", "function-no-panic", ~Has(e.got, "panic"), Ctx(e))
                               \cup (IF Has(e.got, "panic") THEN Check(e.prop, "agrees-with-mathematical-definition", FALSE, Ctx(e))
                                     ELSE Check(e.prop, "agrees-with-mathematical-definition", Agrees(e.got, e.exp), Ctx(e)))
  ELSE {}

IsKnown(v) == \E i \in 1..Len(Known) : LET k == Known[i] IN k.prop = v.prop /\ k.pred = v.pred
Next == /\ l <= Len(Trace)
        /\ LET nv == NewViol \ viol IN
           /\ viol' = viol \cup nv
           /\ (nv # {}) => PrintT(<<"VIOL", ToJson([at |-> l, script |-> l, id |-> Ev.id, sigs |-> nv])>>)
           /\ (\E v \in nv : ~IsKnown(v)) => TLCSet(2, TRUE)
        /\ TLCSet(1, l + 1)
        /\ l' = l + 1
Spec == Init /\ [][Next]_vars
ASSUME TLCSet(1, 1) /\ TLCSet(2, FALSE)
Post == /\ PrintT(<<"POST", ToJson([consumed |-> TLCGet(1) - 1, events |-> Len(Trace), newViolation |-> TLCGet(2)])>>)
        /\ TLCGet(1) = Len(Trace) + 1 /\ TLCGet(2) = FALSE
=============================================================================
