------------------------------ MODULE TraceWalk ------------------------------
(* Generic trace validation for calls whose specification is carried by the
   script itself: each `call` comes with an `exp` record computed by TLC from
   the owning specification module (CipherSelect, DcmiPaging, SdrWalk, Sensor,
   WireRsp ...):

     exp.prop      property the scenario belongs to
     exp.outcome   "value" | "error" | "errclass" | "any"
     exp.value     the specification's result (compared with the projected Go value)
     exp.errclass  the expected error class
     exp.reqs      (optional) the exact sequence of requests the call must transmit,
                   each [pt, netfn, cmd, data]
     exp.maxreqs   (optional) upper bound on transmissions (termination)

   Every transmission is parsed by TLC (session-less: null session; in-session:
   wrapper, AuthCode verdict, confidentiality pad, message checksums). *)
EXTENDS Wire, Json, IOUtils, TLC, FiniteSets, MetricsLaw

Trace == ndJsonDeserialize(IOEnv.VERIF_TRACE)
Cfg   == JsonDeserialize(IOEnv.VERIF_TRACECFG)
Known == Cfg.known

VARIABLES l, viol, info, exp, reqs, seqN, ivs, incall, fired, prevM, mcall
vars == <<l, viol, info, exp, reqs, seqN, ivs, incall, fired, prevM, mcall>>
NoCall == [kind |-> "none", name |-> "", err |-> FALSE, ntx |-> 0, codes |-> <<>>]
DialCall == [NoCall EXCEPT !.kind = "dial"]
NoM == [nometrics |-> 0]
NoRec == [none |-> TRUE]
Init == l = 1 /\ viol = {} /\ info = NoRec /\ exp = NoRec /\ reqs = <<>> /\ seqN = 0 /\ ivs = {} /\ incall = FALSE /\ fired = {} /\ prevM = NoM /\ mcall = NoCall

Ev == Trace[l]
Has(r, f) == f \in DOMAIN r
InSess == Has(info, "insess") /\ info.insess
\* a call made on the connection itself while a session is open on it (scripts that mix the two) uses the null session
CallInSess == InSess /\ ~(Has(exp, "sessionless") /\ exp.sessionless)
Prop == IF Has(exp, "prop") THEN exp.prop ELSE "HARNESS"
Agrees(got, want) == \A k \in DOMAIN want : k \in DOMAIN got /\ got[k] = want[k]
Check(prop, pred_, ok) == IF ok THEN {} ELSE
   {[prop |-> prop, pred |-> pred_, ctx |-> [family |-> IF Has(info, "family") THEN info.family ELSE "?"]]}

\* abstract view of one transmission
AbstractNull(raw) ==
  LET w == ParseWrapper(raw, 0) IN
  IF ~w.ok THEN [pt |-> -2, netfn |-> -1, cmd |-> -1, data |-> <<>>]
  ELSE IF w.ptype = 0 THEN LET mm == ParseReqMsg(w.payload) IN
          IF mm.ok THEN [pt |-> 0, netfn |-> mm.netfn, cmd |-> mm.cmd, data |-> mm.data] ELSE [pt |-> -3, netfn |-> -1, cmd |-> -1, data |-> <<>>]
  ELSE IF w.ptype = 16 /\ Len(w.payload) = 32 THEN [pt |-> 16, netfn |-> -1, cmd |-> -1, data |-> <<w.payload[13], w.payload[21], w.payload[29]>>]
  ELSE [pt |-> w.ptype, netfn |-> -1, cmd |-> -1, data |-> <<>>]
AbstractSess(e) ==
  LET p  == IF Has(e, "plain") /\ Len(e.plain) > 0 THEN StripConfPad(e.plain) ELSE Reject("noplain")
      mm == IF p.ok THEN ParseReqMsg(p.msg) ELSE Reject("nopad")
  IN IF mm.ok THEN [pt |-> 0, netfn |-> mm.netfn, cmd |-> mm.cmd, data |-> mm.data] ELSE [pt |-> -3, netfn |-> -1, cmd |-> -1, data |-> <<>>]
Abstract(e) == IF CallInSess THEN AbstractSess(e) ELSE AbstractNull(e.raw)

TxViol(e) ==
  IF CallInSess
  THEN LET w == ParseWrapper(e.raw, info.integLen)
           p == IF Has(e, "plain") /\ Len(e.plain) > 0 THEN StripConfPad(e.plain) ELSE Reject("noplain")
           mm == IF p.ok THEN ParseReqMsg(p.msg) ELSE Reject("nopad")
       IN Check("C09", "seq-consecutive", w.ok /\ w.seq = LE32s(seqN + 1))
          \cup Check("C03", "addressed-to-bmc-session", w.ok /\ w.sid = info.bmcSid)
          \cup Check("C03", "wrapper-flags-integrity-pad-authcode", w.ok /\ w.enc = 1 /\ w.auth = 1 /\ w.ptype = 0 /\ Has(e, "authOK") /\ e.authOK)
          \cup Check("C03", "confidentiality-iv-ciphertext-pad", w.ok /\ p.ok /\ w.plen = 16 + Len(e.plain) /\ p.n = ConfPadLen(Len(p.msg)))
          \cup Check("C03", "inner-message-well-formed", mm.ok /\ mm.rsAddr = 32)
          \cup Check("C06", "requester-is-remote-console-lun-0", mm.ok => (mm.rqLun = 0 /\ mm.rqAddr % 2 = 1))
          \cup Check("C06", "responder-lun-as-specified", (mm.ok /\ Has(exp, "rslun")) => mm.rsLun = exp.rslun)
          \cup (IF Has(exp, "prop") /\ Has(exp, "rslun") /\ exp.prop \notin {"C06", "C10"}
                THEN Check(exp.prop, "request-goes-to-the-responder-lun-the-scenario-specifies", mm.ok /\ mm.rsLun = exp.rslun) ELSE {})
          \* C10: a retransmission is a complete, correctly addressed encoding of the same command
          \cup (IF Has(exp, "prop") /\ exp.prop = "C10"
                THEN Check("C10", "every-transmission-correctly-addressed",
                           w.ok /\ w.sid = info.bmcSid /\ Has(e, "authOK") /\ e.authOK /\ mm.ok /\ mm.rsAddr = 32 /\ mm.rqLun = 0 /\ mm.rqAddr % 2 = 1
                           /\ (Has(exp, "rslun") => mm.rsLun = exp.rslun))
                ELSE {})
          \cup Check("C03", "iv-fresh", Len(e.raw) >= 32 /\ Sub(e.raw, 16, 32) \notin ivs)
  ELSE LET w == ParseWrapper(e.raw, 0) IN
       Check("C09", "sessionless-null-session", w.ok /\ w.sid = <<0, 0, 0, 0>> /\ w.seq = <<0, 0, 0, 0>> /\ w.auth = 0 /\ w.enc = 0)
       \cup Check("C06", "request-message-well-formed", Abstract(e).pt >= 0)

RetViol(e) ==
  LET x == e.exp
      crashed == Has(e, "panic") \/ Has(e, "hang")
  IN Check("C05", "no-panic-no-hang", ~crashed)
     \cup Check("C13", "returns-once-its-context-has-expired", ~(Has(e, "hang") /\ Has(e, "ctxMs") /\ e.ctxMs + 1000 <= e.wdogMs))
     \cup Check(x.prop, "returns-value-or-error-not-crash", ~crashed)
     \cup (IF Has(e, "hang") /\ x.outcome = "timed" THEN Check(x.prop, "returns-by-deadline-plus-allowance", FALSE) ELSE {})
     \cup (IF crashed \/ ~Has(e, "err") THEN {}
           ELSE (IF x.outcome = "value"
                 THEN Check(x.prop, "succeeds-where-specification-has-a-result", ~e.err)
                      \cup (IF e.err THEN {} ELSE Check(x.prop, "result-equals-specification", Has(e, "value") /\ e.value = x.value))
                 ELSE IF x.outcome = "error"
                 THEN Check(x.prop, "error-where-specification-has-none", e.err)
                      \cup Check(x.prop, "no-partial-result-on-error", ~Has(e, "value") /\ ~Has(e, "partial"))
                 ELSE IF x.outcome = "errclass"
                 THEN Check(x.prop, "error-of-specified-class", e.err /\ e.errClass = x.errclass)
                 ELSE IF x.outcome = "oneofOrError"
                 THEN Check(x.prop, "result-is-allowed-value-or-error",
                            e.err \/ (Has(e, "value") /\ \E i \in 1..Len(x.values) : e.value = x.values[i]))
                 ELSE IF x.outcome = "sdrmapByRule"
                 THEN LET want == IF x.rule \in fired THEN x.ifFired ELSE x.ifNot IN
                      Check(x.prop, "succeeds-where-specification-has-a-result", ~e.err)
                      \cup (IF e.err THEN {} ELSE
                            Check(x.prop, "returns-exactly-the-full-sensor-records-each-once", Has(e, "value") /\ Len(e.value) = Len(want))
                            \cup Check(x.prop, "records-under-their-own-ids",
                                       Has(e, "value") /\ Len(e.value) = Len(want) => \A i \in 1..Len(want) : e.value[i].k = want[i].k)
                            \cup Check(x.prop, "fields-equal-reference-decoding-of-one-repository-state",
                                       (Has(e, "value") /\ Len(e.value) = Len(want) /\ \A i \in 1..Len(want) : e.value[i].k = want[i].k)
                                          => \A i \in 1..Len(want) : Agrees(e.value[i].v, want[i].v)))
                 ELSE IF x.outcome = "timed"
                 THEN Check(x.prop, "returns-by-deadline-plus-allowance", e.ms <= x.deadlineMs + x.allowMs)
                      \cup Check(x.prop, "error-unless-a-valid-response-was-obtained", x.mustErr => e.err)
                      \cup (IF Has(x, "mustOk") /\ x.mustOk THEN Check(x.prop, "succeeds-when-the-final-answer-arrives-within-the-deadline", ~e.err) ELSE {})
                 ELSE IF x.outcome = "agrees"
                 THEN Check(x.vprop, "succeeds-where-specification-has-a-result", ~e.err)
                      \cup (IF e.err THEN {} ELSE Check(x.vprop, "decoded-response-equals-specification", Has(e, "value") /\ Agrees(e.value, x.value)))
                 ELSE IF x.outcome = "equals"
                 THEN Check(x.vprop, "succeeds-where-specification-has-a-result", ~e.err)
                      \cup (IF e.err THEN {} ELSE Check(x.vprop, "decoded-response-equals-specification", Has(e, "value") /\ e.value = x.value))
                 ELSE IF x.outcome = "noerror" THEN Check(x.prop, "succeeds-where-specification-has-a-result", ~e.err)
                 ELSE IF x.outcome = "float"
                 THEN Check(x.prop, "succeeds-where-specification-has-a-result", ~e.err)
                      \cup (IF e.err THEN {} ELSE Check(x.prop, "value-equals-exact-evaluation-of-specified-formula", Has(e, "floatOK") /\ e.floatOK))
                 ELSE {})
                \cup (IF Has(x, "reqs") THEN Check(x.prop, "requests-as-specified", reqs = x.reqs) ELSE {})
                \* C10: whatever is transmitted during a call - first transmission or retransmission - is one of the requests
                \* the call stands for
                \cup (IF Has(x, "reqs") /\ Len(x.reqs) > 0 /\ x.prop \in {"C06", "C10"}
                      THEN Check("C10", "every-transmission-is-a-request-of-the-call", \A i \in 1..Len(reqs) : \E j \in 1..Len(x.reqs) : reqs[i] = x.reqs[j]) ELSE {})
                \* C03's last clause: inside a session the decrypted payloads are exactly the commands the caller asked for
                \cup (IF Has(x, "reqs") /\ InSess /\ ~(Has(x, "sessionless") /\ x.sessionless) /\ x.prop = "C06"
                      THEN Check("C03", "decrypted-payloads-are-exactly-the-commands-asked-for", reqs = x.reqs) ELSE {})
                \cup (IF Has(x, "maxreqs") THEN Check(x.prop, "terminates-within-specified-requests", Len(reqs) <= x.maxreqs) ELSE {}))

NewViol == LET e == Ev IN
  IF e.ev = "tx" /\ incall /\ ~(Has(info, "notx") /\ info.notx) THEN TxViol(e)
  ELSE IF e.ev = "ret" /\ Has(e, "exp") THEN RetViol(e)
  ELSE IF e.ev = "ret" THEN Check("C05", "no-panic-no-hang", ~Has(e, "panic") /\ ~Has(e, "hang"))
                           \cup Check("C13", "returns-once-its-context-has-expired", ~(Has(e, "hang") /\ Has(e, "ctxMs") /\ e.ctxMs + 1000 <= e.wdogMs))
  ELSE IF e.ev \in {"harnessError", "prefixFailed"} THEN Check("HARNESS", e.ev, FALSE)
  \* results the caller was handed earlier in the script, looked at again after everything that followed: a decoded
  \* response is the caller's own value (C07), and nothing that arrives later may show up in it (C17)
  \* scripts run on a connection with a past (GenPast.tla): a crash in the past, or the script's own session not coming
  \* into being because of it
  ELSE IF e.ev = "pastBroke" THEN Check("C17", "works-whatever-the-connection-did-before", FALSE)
                                  \cup Check("C05", "no-panic-no-hang", ~(Has(e, "panic") /\ e.panic # "nil"))
                                  \cup (IF e["in"] = "prefix" THEN Check("C01", "honest-handshake-succeeds", FALSE) ELSE {})
  ELSE IF e.ev = "held" THEN Check("C07", "a-decoded-response-keeps-its-values-when-later-responses-arrive", e.changed = <<>>)
                             \cup Check("C17", "a-decoded-response-keeps-its-values-when-later-responses-arrive", e.changed = <<>>)
  ELSE IF e.ev = "metrics" /\ prevM # NoM /\ mcall.kind # "none"
       THEN LET bad == BadKeys(prevM, e.m, mcall) IN
            IF bad = {} THEN {} ELSE {[prop |-> "C18", pred |-> "counters-change-by-exactly-what-happened",
                                       ctx |-> [keys |-> bad, kind |-> mcall.kind, err |-> mcall.err]]}
  ELSE {}

Step ==
  LET e == Ev IN
  CASE e.ev = "reset" -> /\ info' = (IF Has(e, "info") THEN e.info ELSE NoRec) /\ exp' = NoRec /\ reqs' = <<>> /\ seqN' = 0 /\ ivs' = {}
                         /\ incall' = FALSE /\ fired' = {} /\ mcall' = NoCall
                         \* (the registry snapshots taken at the start of the script and after the dial precede the reset)
                         /\ UNCHANGED prevM
    [] e.ev = "call" -> /\ exp' = (IF Has(e, "exp") THEN e.exp ELSE NoRec) /\ reqs' = <<>> /\ incall' = TRUE /\ fired' = {}
                        /\ mcall' = [kind |-> (IF e.api \in {"Cmd", "Raw"} THEN "command"
                                               ELSE IF e.api = "NewV2Session" /\ ~InSess THEN "opendisc"
                                               ELSE IF e.api = "RetrieveSupportedCipherSuites" /\ ~InSess THEN "disc" ELSE "none"),
                                      name |-> "", err |-> FALSE, ntx |-> 0, codes |-> <<>>]
                        /\ UNCHANGED <<info, seqN, ivs, prevM>>
    [] e.ev = "tx" -> /\ reqs' = (IF Has(info, "notx") /\ info.notx THEN reqs ELSE Append(reqs, Abstract(e)))
                      /\ seqN' = (IF CallInSess THEN seqN + 1 ELSE seqN)
                      /\ ivs' = (IF CallInSess /\ Len(e.raw) >= 32 THEN ivs \cup {Sub(e.raw, 16, 32)} ELSE ivs)
                      /\ fired' = (IF Has(e, "rule") THEN fired \cup {e.rule} ELSE fired)
                      \* for a session open only the commands of the cipher suite enumeration count as commands
                      /\ mcall' = (IF mcall.kind \in {"opendisc", "disc"} /\ Abstract(e).pt # 0 THEN mcall ELSE [mcall EXCEPT !.ntx = @ + 1])
                      /\ UNCHANGED <<info, exp, incall, prevM>>
    [] e.ev = "rx" -> /\ mcall' = (IF incall /\ Has(e, "attrs") /\ Has(e.attrs, "valid") /\ e.attrs.valid THEN [mcall EXCEPT !.codes = Append(@, e.attrs.code)]
                                   ELSE IF incall /\ mcall.kind \in {"opendisc", "disc"} /\ Has(e, "attrs") /\ Has(e.attrs, "kind")
                                        THEN (IF e.attrs.kind = "chunk" THEN [mcall EXCEPT !.codes = Append(@, 0)]
                                              \* refusals of a chunk request and everything but well-formed chunks: not covered by this law
                                              ELSE IF e.attrs.kind \in {"osr-refused"} THEN mcall ELSE [mcall EXCEPT !.kind = "none"])
                                   ELSE mcall)
                      /\ UNCHANGED <<info, exp, reqs, seqN, ivs, incall, fired, prevM>>
    [] e.ev = "ret" -> /\ incall' = FALSE
                       /\ mcall' = (IF Has(e, "err") /\ Has(e, "cmdName") THEN [mcall EXCEPT !.err = e.err, !.name = e.cmdName]
                                    ELSE IF Has(e, "err") /\ mcall.kind \in {"opendisc", "disc"} /\ ~Has(e, "panic") /\ ~Has(e, "hang")
                                         THEN [mcall EXCEPT !.err = e.err, !.name = "Get Channel Cipher Suites"]
                                    ELSE [mcall EXCEPT !.kind = "none"])
                       /\ UNCHANGED <<info, exp, reqs, seqN, ivs, fired, prevM>>
    [] e.ev = "metrics" -> /\ prevM' = e.m /\ mcall' = NoCall /\ UNCHANGED <<info, exp, reqs, seqN, ivs, incall, fired>>
    [] OTHER -> UNCHANGED <<info, exp, reqs, seqN, ivs, incall, fired, prevM, mcall>>

IsKnown(v) == \E i \in 1..Len(Known) : LET k == Known[i] IN k.prop = v.prop /\ k.pred = v.pred
Next == /\ l <= Len(Trace)
        /\ LET nv == NewViol \ viol IN
           /\ viol' = viol \cup nv
           /\ (nv # {}) => PrintT(<<"VIOL", ToJson([at |-> l, script |-> Ev.script, sigs |-> nv])>>)
           /\ (\E v \in nv : ~IsKnown(v)) => TLCSet(2, TRUE)
        /\ TLCSet(1, l + 1)
        /\ l' = l + 1
        /\ Step
Spec == Init /\ [][Next]_vars

ASSUME TLCSet(1, 1) /\ TLCSet(2, FALSE)
Post == /\ PrintT(<<"POST", ToJson([consumed |-> TLCGet(1) - 1, events |-> Len(Trace), newViolation |-> TLCGet(2)])>>)
        /\ TLCGet(1) = Len(Trace) + 1 /\ TLCGet(2) = FALSE
=============================================================================
