------------------------------- MODULE Layout -------------------------------
(* Wire formats as data.  A layer is a sequence of items; an item is either a
   byte made of bit fields or a multi-byte field.  One generic encoder, one
   generic projection (what the library's decoded struct must look like) and
   one generic enumerator serve every fixed-layout request and response of
   IPMI/DCMI; the tables themselves (LayerTables.tla) are transcribed from the
   specifications' byte/bit tables.

   Bit field:  [n, hi, lo, t]   t: "bool" | "nbool" (inverted) | "uint" | "res" (reserved, sent as 0)
                                   | "const" (fixed value v, not a struct field)
   Item:       [k |-> "bits", fs |-> <<bit fields>>]
               [k |-> "u8" | "bcd" | "bcdrev" | "le16" | "le24e" | "le32" | "raw", n (, len)]
   A record (function from field name to abstract value) assigns: BOOLEAN to
   bool/nbool, a number to uint/u8/bcd/bcdrev/le16/le24e, a byte sequence to
   le32/raw. *)
EXTENDS Bytes, FiniteSets, TLC

Pow2(n) == 2 ^ n
BitsItem(fs) == [k |-> "bits", fs |-> fs]
F(n, hi, lo, t) == [n |-> n, hi |-> hi, lo |-> lo, t |-> t]
Bool(n, bit) == F(n, bit, bit, "bool")
NBool(n, bit) == F(n, bit, bit, "nbool")
UInt(n, hi, lo) == F(n, hi, lo, "uint")
Res(hi, lo) == F("-", hi, lo, "res")
Const(hi, lo, v) == [n |-> "-", hi |-> hi, lo |-> lo, t |-> "const", v |-> v]
U8(n) == [k |-> "u8", n |-> n]
Bcd(n) == [k |-> "bcd", n |-> n]
BcdRev(n) == [k |-> "bcdrev", n |-> n]
LE16F(n) == [k |-> "le16", n |-> n]
LE24E(n) == [k |-> "le24e", n |-> n]
LE32F(n) == [k |-> "le32", n |-> n]
Raw(n, len) == [k |-> "raw", n |-> n, len |-> len]

\* ------------------------------------------------------------------ encoding
FieldBits(f, rec) ==
  LET w == f.hi - f.lo + 1
      v == CASE f.t = "bool" -> (IF rec[f.n] THEN 1 ELSE 0)
             [] f.t = "nbool" -> (IF rec[f.n] THEN 0 ELSE 1)
             [] f.t = "uint" -> rec[f.n] % Pow2(w)
             [] f.t = "res" -> 0
             [] f.t = "const" -> f.v
  IN v * Pow2(f.lo)
RECURSIVE SumFields(_, _)
SumFields(fs, rec) == IF fs = <<>> THEN 0 ELSE FieldBits(Head(fs), rec) + SumFields(Tail(fs), rec)
EncodeItem(it, rec) ==
  CASE it.k = "bits" -> << SumFields(it.fs, rec) >>
    [] it.k = "u8" -> << rec[it.n] % 256 >>
    [] it.k = "bcd" -> << (rec[it.n] \div 10) * 16 + (rec[it.n] % 10) >>          \* tens in the high nibble
    [] it.k = "bcdrev" -> << (rec[it.n] % 10) * 16 + (rec[it.n] \div 10) >>        \* tens in the low nibble
    [] it.k = "le16" -> LE16(rec[it.n])
    [] it.k = "le24e" -> LE24(rec[it.n])
    [] it.k = "le32" -> rec[it.n]
    [] it.k = "raw" -> rec[it.n]
Encode(layer, rec) == Flatten([i \in 1..Len(layer) |-> EncodeItem(layer[i], rec)])

\* ---------------------------------------------------------------- projection
\* names of the struct fields a layer defines
ItemNames(it) == IF it.k = "bits" THEN {it.fs[i].n : i \in {j \in 1..Len(it.fs) : it.fs[j].t \notin {"res", "const"}}} ELSE {it.n}
Names(layer) == UNION {ItemNames(layer[i]) : i \in 1..Len(layer)}
KindOf(layer, nm) ==
  LET i == CHOOSE j \in 1..Len(layer) : nm \in ItemNames(layer[j]) IN
  IF layer[i].k = "bits" THEN (LET fs == layer[i].fs  q == CHOOSE j \in 1..Len(fs) : fs[j].n = nm IN fs[q].t) ELSE layer[i].k
\* the library's projection rules (harness/project.go): 32-bit quantities are 4-byte little-endian lists
ProjectField(layer, nm, rec) ==
  LET kd == KindOf(layer, nm) IN
  IF kd = "le24e" THEN LE24(rec[nm]) \o <<0>> ELSE rec[nm]
Project(layer, rec) == [nm \in Names(layer) |-> ProjectField(layer, nm, rec)]

\* --------------------------------------------------------------- enumeration
WidthOf(layer, nm) ==
  LET i == CHOOSE j \in 1..Len(layer) : nm \in ItemNames(layer[j]) IN
  IF layer[i].k = "bits" THEN (LET fs == layer[i].fs  q == CHOOSE j \in 1..Len(fs) : fs[j].n = nm IN fs[q].hi - fs[q].lo + 1) ELSE 8
LenOf(layer, nm) ==
  LET i == CHOOSE j \in 1..Len(layer) : nm \in ItemNames(layer[j]) IN IF layer[i].k = "raw" THEN layer[i].len ELSE 4
Walk16 == {0, 1, 2, 255, 256, 257, 4095, 4096, 32767, 32768, 65534, 65535} \cup {Pow2(i) : i \in 0..15}
Walk24 == {0, 1, 255, 256, 65535, 65536, 8388607, 8388608, 16777214, 16777215} \cup {Pow2(i) : i \in 0..23}
Pat(len, k) == [i \in 1..len |-> (k * 37 + i * 11) % 256]
RawDom(len) == {Repeat(0, len), Repeat(255, len), [i \in 1..len |-> i], Pat(len, 1), Pat(len, 2)}
                \cup {[i \in 1..len |-> IF i = j THEN 128 ELSE 0] : j \in 1..len}
\* every value a field can take (complete when the field has at most 8 bits; boundary + walking-ones otherwise)
Dom(layer, nm) ==
  LET kd == KindOf(layer, nm) IN
  CASE kd \in {"bool", "nbool"} -> BOOLEAN
    [] kd = "uint" -> 0..(Pow2(WidthOf(layer, nm)) - 1)
    [] kd = "u8" -> 0..255
    [] kd \in {"bcd", "bcdrev"} -> 0..99
    [] kd = "le16" -> Walk16
    [] kd = "le24e" -> Walk24
    [] kd \in {"le32", "raw"} -> RawDom(LenOf(layer, nm))
\* a base record: a pseudo-random but valid value for every field (seeded)
BaseVal(layer, nm, seed) ==
  LET kd == KindOf(layer, nm) IN
  CASE kd \in {"bool", "nbool"} -> (seed % 2 = 0)
    [] kd = "uint" -> (seed * 5 + 1) % Pow2(WidthOf(layer, nm))
    [] kd = "u8" -> (seed * 37 + 11) % 256
    [] kd \in {"bcd", "bcdrev"} -> (seed * 13 + 7) % 100
    [] kd = "le16" -> (seed * 977 + 4660) % 65536
    [] kd = "le24e" -> (seed * 7919 + 674) % 16777216
    [] kd \in {"le32", "raw"} -> Pat(LenOf(layer, nm), seed + 3)
Base(layer, seed) == [nm \in Names(layer) |-> BaseVal(layer, nm, seed)]
\* all records that differ from the base in exactly one field, over that field's whole domain
Variants(layer, seed) == UNION { { [Base(layer, seed) EXCEPT ![nm] = v] : v \in Dom(layer, nm) } : nm \in Names(layer) }
\* the name of the field in which a variant differs from the base ("-" for the base itself)
Changed(layer, seed, rec) == IF rec = Base(layer, seed) THEN "-" ELSE CHOOSE nm \in Names(layer) : rec[nm] # Base(layer, seed)[nm]
=============================================================================
