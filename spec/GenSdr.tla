------------------------------- MODULE GenSdr -------------------------------
(* Scenarios for SDR repository retrieval (C14).  The repository device of
   SdrWalk.tla is made concrete: records with real headers and bodies (Full
   Sensor Records from Fsr.tla; compact, FRU locator and OEM records with
   arbitrary bodies), served in session by a rule-driven BMC (33.9 Get SDR
   Repository Info, 33.11 Reserve SDR Repository, 33.12 Get SDR with offset and
   length).  A modification (new addition/erase time stamp, other contents,
   reservation cancelled) or a bare reservation loss happens before the k-th
   Get SDR request, whatever the walk's request strategy is.

   Expected result = the Full Sensor Records of the repository at one instant:
   after the event if it happened during the walk (the rule fired), before
   otherwise. *)
EXTENDS Crypto, Fsr, Json, FiniteSets, TLC

CONSTANTS Seed, Family, Tier
Full == Tier = "thorough"
Rnd(k, i) == ((k + 3) * 7919 + (i + 1) * 104729 + (Seed + 1) * 1299709 + (k * i) * 31) % 65536

S == [authAlg |-> "sha1", integAlg |-> "sha1", authNum |-> 1, integNum |-> 1, confNum |-> 1, icvLen |-> 12, integLen |-> 12,
      uname |-> <<97>>, pw |-> <<98, 99>>, kg |-> <<>>, priv |-> 4, lookup |-> TRUE, bmcSid |-> <<7, 7, 7, 1>>,
      rc |-> [i \in 1..16 |-> (i * 5) % 256], guid |-> [i \in 1..16 |-> (90 + i) % 256]]

\* ---------------------------------------------------------------- repository
\* record: [id, type (1 full, 2 compact, 17 FRU locator, 192 OEM), body (bytes)], r (FSR abstract record when full)
IdStr(k, n) == [enc |-> (k % 4), vals |-> [i \in 1..n |-> CASE (k % 4) = 1 -> (i + k) % 16 [] (k % 4) = 2 -> (i * 5 + k) % 64 [] OTHER -> 33 + ((i * 7 + k) % 90)]]
\* (the 5-bit length counts characters: 16 bytes hold up to 31 BCD plus or 21 packed 6-bit characters)
FullRec(id, k) == LET n == (IF k % 5 = 0 THEN 0 ELSE CASE k % 4 = 1 -> 2 + ((k \div 4) % 30) [] k % 4 = 2 -> 2 + ((k \div 4) % 20) [] OTHER -> 2 + ((k \div 4) % 15))
                      r == [FsrBase(k) EXCEPT !.id = IdStr(k, n), !.res = IF k % 3 = 0 THEN AllRes ELSE IF k % 3 = 1 THEN [NoRes EXCEPT !.tl = 1] ELSE NoRes]
                  IN [id |-> id, type |-> 1, body |-> FsrEnc(r), r |-> r]
OtherRec(id, k) == [id |-> id, type |-> <<2, 17, 192>>[1 + (k % 3)], body |-> [i \in 1..(3 + (k % 40)) |-> (k + i * 3) % 256], r |-> <<>>]
RecBytes(rec) == LE16(rec.id) \o <<81, rec.type, Len(rec.body)>> \o rec.body
\* ids: distinct, anywhere in 0..0xFFFE, chain order = sequence order (not sorted)
\* distinct by construction: each position draws from its own residue class modulo 64
IdAt(k, i, n, firstZero) == IF i = 1 /\ firstZero THEN 0 ELSE 64 * (1 + (Rnd(k, i) % 1000)) + i
Repo(k, n, firstZero) == [i \in 1..n |-> IF (Rnd(k, i + 50) % 3) # 0 THEN FullRec(IdAt(k, i, n, firstZero), k + i) ELSE OtherRec(IdAt(k, i, n, firstZero), k + i)]
DistinctIds(rp) == \A i, j \in 1..Len(rp) : i # j => rp[i].id # rp[j].id
NextId(rp, i) == IF i < Len(rp) THEN rp[i + 1].id ELSE 65535
Snapshot(rp) ==   \* the expected map, sorted by record ID: [k, v]
  LET fulls == {i \in 1..Len(rp) : rp[i].type = 1}
      RECURSIVE Sorted(_)
      Sorted(set) == IF set = {} THEN <<>> ELSE LET m == CHOOSE x \in set : \A y \in set : rp[x].id <= rp[y].id IN <<m>> \o Sorted(set \ {m})
      ord == Sorted(fulls)
  IN [j \in 1..Len(ord) |-> [k |-> rp[ord[j]].id, v |-> FsrExpected(rp[ord[j]].r)]]

\* --------------------------------------------------------------- rule-driven BMC
HexD == <<"0", "1", "2", "3", "4", "5", "6", "7", "8", "9", "a", "b", "c", "d", "e", "f">>
KeyStr(bs) == IF Len(bs) = 1 THEN HexD[(bs[1] \div 16) + 1] \o HexD[(bs[1] % 16) + 1]
              ELSE HexD[(bs[1] \div 16) + 1] \o HexD[(bs[1] % 16) + 1] \o HexD[(bs[2] \div 16) + 1] \o HexD[(bs[2] % 16) + 1]

Plain == Ref("ReqPlainT")
IsCmd(c) == And(<< Eq(Slice(Plain, 1, 2), B(<<40>>)), Eq(Slice(Plain, 5, 6), B(<<c>>)) >>)      \* Storage request (0Ah << 2), command
Reply(msgT) == << Dg(DynSessPacket(S, <<1, 0, 0, 0>>, msgT, [i \in 1..16 |-> i]), [kind |-> "sdr"]) >>
InfoMsg(rp, tAdd, tErase) == DynMsgRsp(11, 32, 0, B(<<81>> \o LE16(Len(rp)) \o <<255, 255>> \o tAdd \o tErase \o <<34>>))
\* Get SDR request data: reservation [6,8), record ID [8,10), offset [10], bytes to read [11]
GetSdrTable(rp) == [i \in 1..Len(rp) |->
   [key |-> LE16(rp[i].id), msg |-> DynMsgRsp(11, 35, 0, Cat(<< B(LE16(NextId(rp, i))), SliceBy(B(RecBytes(rp[i])), Slice(Plain, 10, 11), Slice(Plain, 11, 12)) >>))]]
\* the first record is also addressed by ID 0000h
GetSdrMsg(rp) ==
  LET tab == GetSdrTable(rp)
  IN [op |-> "lookup", key |-> Slice(Plain, 8, 10),
      table |-> [kk \in {KeyStr(tab[i].key) : i \in 1..Len(tab)} \cup (IF Len(rp) > 0 THEN {"0000"} ELSE {}) |->
                   IF kk = "0000" /\ (\A i \in 1..Len(tab) : KeyStr(tab[i].key) # "0000") THEN tab[1].msg
                   ELSE tab[CHOOSE i \in 1..Len(tab) : KeyStr(tab[i].key) = kk].msg],
      default |-> DynMsgRsp(11, 35, 203, B(<<>>))]                                                  \* CBh: requested record not present
Cancelled == DynMsgRsp(11, 35, 197, B(<<>>))                                                        \* C5h: reservation cancelled
St(n, v) == [name |-> n, eq |-> v]
Inc(n) == [k |-> "inc", name |-> n]
Set(n, v) == [k |-> "set", name |-> n, v |-> v]
OffsetZero == Eq(Slice(Plain, 10, 11), B(<<0>>))
ResvOk == Eq(Slice(Plain, 6, 8), State16("resv"))

\* ev: [kind |-> "none" | "modify" | "loseresv", at |-> k (before the k-th Get SDR), strict |-> BOOLEAN]
Rules(pre, post, ev) ==
  LET hasTs == "ts" \in DOMAIN ev        \* explicit <<addition, erase>> time stamps before and after the modification
      t1 == IF hasTs THEN LE32s(ev.ts[1]) ELSE <<10, 0, 0, 0>>  t2 == IF hasTs THEN LE32s(ev.ts[2]) ELSE <<10, 0, 0, 0>>
      tA == IF hasTs THEN LE32s(ev.ts[3]) ELSE IF ev.kind = "modify" /\ ev.stamp = "add" THEN <<20, 0, 0, 0>> ELSE t1
      tE == IF hasTs THEN LE32s(ev.ts[4]) ELSE IF ev.kind = "modify" /\ ev.stamp = "erase" THEN <<20, 0, 0, 0>> ELSE t2
      trigger == IF ev.kind = "none" THEN <<>> ELSE
        << [rule |-> "event", when |-> <<IsCmd(35)>>, ifstate |-> <<St("n", ev.at - 1), St("phase", 0)>>,
            \* 33.11.2: a modification that changes no existing record ID may leave the reservation valid ("keep"):
            \* then the time stamps are the only signal
            effects |-> IF ev.keep THEN <<Set("phase", 1), Inc("n")>> ELSE <<Set("phase", 1), Set("valid", 0), Inc("n")>>,
            \* the request that follows the event carries a stale reservation
            datagrams |-> Reply(IF ev.keep THEN GetSdrMsg(post) ELSE IF ev.strict THEN Cancelled
                                ELSE [op |-> "lookup", key |-> Slice(Plain, 10, 11), table |-> [kk \in {"00"} |-> GetSdrMsg(IF ev.kind = "modify" THEN post ELSE pre)], default |-> Cancelled])] >>
      cur(ph) == IF ph = 1 /\ ev.kind = "modify" THEN post ELSE pre
  IN << [rule |-> "reserve", when |-> <<IsCmd(34)>>, effects |-> <<Inc("resv"), Set("valid", 1)>>,
         datagrams |-> Reply(DynMsgRsp(11, 34, 0, State16("resv")))],
        [rule |-> "info-pre", when |-> <<IsCmd(32)>>, ifstate |-> St("phase", 0), effects |-> <<Inc("i")>>, datagrams |-> Reply(InfoMsg(pre, t1, t2))],
        [rule |-> "info-post", when |-> <<IsCmd(32)>>, ifstate |-> St("phase", 1), effects |-> <<Inc("i")>>, datagrams |-> Reply(InfoMsg(cur(1), tA, tE))] >>
     \o trigger \o
     << \* a request with a reservation that is not the current valid one: partial reads must be refused; offset-0 reads as configured
        [rule |-> "stale-partial", when |-> <<IsCmd(35)>>, ifstate |-> St("valid", 0), effects |-> <<Inc("n")>>,
         datagrams |-> Reply(IF ev.kind # "none" /\ ~ev.strict
                             THEN [op |-> "lookup", key |-> Slice(Plain, 10, 11), table |-> [kk \in {"00"} |-> GetSdrMsg(cur(1))], default |-> Cancelled]
                             ELSE Cancelled)],
        [rule |-> "getsdr-pre", when |-> <<IsCmd(35), ResvOk>>, ifstate |-> <<St("phase", 0), St("valid", 1)>>, effects |-> <<Inc("n")>>,
         datagrams |-> Reply(GetSdrMsg(pre))],
        [rule |-> "getsdr-post", when |-> <<IsCmd(35), ResvOk>>, ifstate |-> <<St("phase", 1), St("valid", 1)>>, effects |-> <<Inc("n")>>,
         datagrams |-> Reply(GetSdrMsg(cur(1)))],
        [rule |-> "wrong-reservation", when |-> <<IsCmd(35)>>, effects |-> <<Inc("n")>>, datagrams |-> Reply(Cancelled)] >>

Script(id, pre, post, ev) ==
  [id |-> id, prefix |-> "hs",
   info |-> [family |-> "sdr", insess |-> TRUE, integLen |-> S.integLen, bmcSid |-> S.bmcSid, records |-> Len(pre), event |-> ev.kind, at |-> ev.at],
   steps |-> << [k |-> "rules", rules |-> Rules(pre, post, ev), state |-> [n |-> 0, i |-> 0, phase |-> 0, valid |-> 0, resv |-> 100 + (Len(pre) % 7)]],
                [k |-> "call", api |-> "RetrieveSDRRepository", label |-> "sdr", target |-> "sess", ctx |-> [ms |-> 6000],
                 exp |-> [prop |-> "C14", outcome |-> "sdrmapByRule", rule |-> "event",
                          ifFired |-> Snapshot(IF ev.kind = "modify" THEN post ELSE pre), ifNot |-> Snapshot(pre), maxreqs |-> 4 * (6 + 2 * (Len(pre) + Len(post)))]] >>]

NoEvent == [kind |-> "none", at |-> 0, strict |-> TRUE, stamp |-> "add", keep |-> FALSE]
\* number of Get SDR requests of one header-then-body walk (only used to choose event positions that can occur)
WalkReqs(rp) == Len(rp) + Cardinality({i \in 1..Len(rp) : rp[i].type = 1})
Plainrepos ==
  LET sizes == IF Full THEN 1..40 ELSE {1, 2, 3, 4, 5, 7, 9, 12, 16, 24, 40} IN
  UNION { { Script("plain-" \o ToString(n) \o "-" \o ToString(v) \o (IF z THEN "z" ELSE "n"), Repo(n * 10 + v, n, z), <<>>, NoEvent)
            : v \in (IF Full THEN 1..3 ELSE 1..2), z \in BOOLEAN } : n \in sizes }
\* a modification or a reservation loss before each possible Get SDR request of the walk, strict and lenient BMCs, both time stamps
Events ==
  LET bases == IF Full THEN {<<3, 1>>, <<4, 2>>, <<5, 3>>, <<6, 4>>, <<2, 5>>, <<8, 6>>} ELSE {<<3, 1>>, <<4, 2>>} IN
  UNION { LET pre == Repo(b[1] * 10 + b[2], b[1], (b[2] % 2) = 0)
              post == Repo(b[1] * 10 + b[2] + 500, b[1] + ((b[2] % 3) - 1), (b[2] % 2) = 1) IN
          { Script("mod-" \o ToString(b[1]) \o "-" \o ToString(k) \o "-" \o st \o (IF strict THEN "S" ELSE "L"), pre, post,
                   [kind |-> "modify", at |-> k, strict |-> strict, stamp |-> st, keep |-> FALSE]) : k \in 1..(WalkReqs(pre) + 1), strict \in BOOLEAN, st \in {"add", "erase"} }
          \* a modification within the same second as the previous one: the reservation is cancelled (every request that
          \* carries the old one is refused), the time stamps do not move - the refusal is the only signal, and what was
          \* collected before it belongs to a repository that no longer exists
          \cup { Script("modsame-" \o ToString(b[1]) \o "-" \o ToString(k), pre, post,
                        [kind |-> "modify", at |-> k, strict |-> TRUE, stamp |-> "add", keep |-> FALSE, ts |-> <<10, 10, 10, 10>>]) : k \in 1..(WalkReqs(pre) + 1) }
          \* the same where the records keep their IDs and the first one is replaced (so that a walk that merely carried
          \* on after reserving again would still find every record it asks for)
          \cup { LET preF == [i \in 1..4 |-> IF i = 3 THEN OtherRec(100 * i + b[2], 7 + i) ELSE FullRec(100 * i + b[2], 50 + i + Seed)]
                     postF == [preF EXCEPT ![1] = FullRec(preF[1].id, 90 + Seed)] IN
                 Script("modsame-inplace-" \o ToString(b[1]) \o "-" \o ToString(k), preF, postF,
                        [kind |-> "modify", at |-> k, strict |-> TRUE, stamp |-> "add", keep |-> FALSE, ts |-> <<10, 10, 10, 10>>]) : k \in 2..8 }
          \cup { Script("modkeep-" \o ToString(b[1]) \o "-" \o ToString(k) \o "-" \o st, pre, post,
                        [kind |-> "modify", at |-> k, strict |-> TRUE, stamp |-> st, keep |-> TRUE]) : k \in 1..(WalkReqs(pre) + 1), st \in {"add", "erase"} }
          \* reservation kept (33.11.2), so the time stamps are the only signal: the stamp that advances stays older than
          \* the other one (a BMC whose clock was lost reports small erase times next to a real addition date), both
          \* advance, and an advance that only shows in a higher byte
          \cup { Script("modts-" \o ToString(b[1]) \o "-" \o ToString(k) \o "-" \o ToString(ts), pre, post,
                        [kind |-> "modify", at |-> k, strict |-> TRUE, stamp |-> "add", keep |-> TRUE, ts |-> ts])
                 : k \in {1, 2, WalkReqs(pre), WalkReqs(pre) + 1},
                   ts \in { <<1000, 900, 1000, 950>>, <<900, 1000, 950, 1000>>, <<16000000, 5000, 16000000, 5060>>, <<10, 10, 20, 20>>,
                            <<255, 7, 256, 7>>, <<7, 65535, 7, 65536>>, <<5, 9, 6, 9>> } }
          \cup { Script("lose-" \o ToString(b[1]) \o "-" \o ToString(k) \o (IF strict THEN "S" ELSE "L"), pre, <<>>,
                        [kind |-> "loseresv", at |-> k, strict |-> strict, stamp |-> "add", keep |-> FALSE]) : k \in 1..WalkReqs(pre), strict \in BOOLEAN }
          : b \in bases }

\* a single fault at each request position of the retrieval (first / closing Get SDR Repository Info, Reserve, each Get
\* SDR): a refusal (C1h), a reply that never comes (in a session: a transport error), an undecodable body. The retrieval
\* has an outer retry, so the result must still be the whole repository - or an error, never a partial map
FaultRule(cmd, ctr, at, kind) ==
  [rule |-> "fault", when |-> <<IsCmd(cmd)>>, ifstate |-> <<St(ctr, at), St("f", 0)>>, effects |-> <<Inc(ctr), Set("f", 1)>>,
   datagrams |-> CASE kind = "cc" -> Reply(DynMsgRsp(11, cmd, 193, B(<<>>)))
                   [] kind = "short" -> Reply(DynMsgRsp(11, cmd, 0, B(<<7>>)))
                   \* a body read answered with the next-record ID and only five bytes of record data
                   [] kind = "shortbody" -> Reply(DynMsgRsp(11, cmd, 0, B(<<255, 255, 32, 1, 2, 3, 4>>)))
                   [] OTHER -> <<>>]
FaultScript(id, pre, cmd, ctr, at, kind) ==
  LET b == Script(id, pre, <<>>, NoEvent) IN
  [b EXCEPT !.steps = << [b.steps[1] EXCEPT !.rules = << FaultRule(cmd, ctr, at, kind) >> \o @, !.state = @ @@ [f |-> 0, r |-> 0]],
                         [b.steps[2] EXCEPT !.exp = [prop |-> "C14", outcome |-> "sdrmapByRule", rule |-> "fault", ifFired |-> Snapshot(pre), ifNot |-> Snapshot(pre),
                                                     maxreqs |-> 8 * (6 + 2 * Len(pre))]] >>,
             !.info = [b.info EXCEPT !.event = "fault-" \o kind]]
Faults ==
  UNION { LET pre == Repo(bb[1] * 10 + bb[2] + Seed, bb[1], (bb[2] % 2) = 0) IN
          { FaultScript("fault-sdr-" \o ToString(bb[1]) \o "-" \o ToString(k) \o "-" \o kind, pre, 35, "n", k - 1, kind) : k \in 1..WalkReqs(pre), kind \in {"cc", "lost", "short"} }
          \cup { LET b == FaultScript("fault-body-" \o ToString(bb[1]), pre, 35, "f", 0, "shortbody") IN
                 \* fires on the first Get SDR whose offset is 5 (a body read), whenever that is
                 [b EXCEPT !.steps = << [b.steps[1] EXCEPT !.rules = << [@[1] EXCEPT !.when = <<IsCmd(35), Eq(Slice(Plain, 10, 11), B(<<5>>))>>,
                                                                                     !.ifstate = <<St("f", 0)>>, !.effects = <<Inc("n"), Set("f", 1)>>] >> \o Tail(@)],
                                           b.steps[2] >>] }
          \* a modification that keeps the reservation, and then the closing Get SDR Repository Info fails once: the walk
          \* cannot have been validated, so it is repeated
          \* (the first record is replaced under its own ID after the walk has read it, so nothing but the time stamps tells)
          \cup { LET preF == [i \in 1..3 |-> FullRec(100 * i + bb[2], 50 + i + Seed)]
                     postF == [preF EXCEPT ![1] = FullRec(preF[1].id, 90 + Seed)]
                     b == Script("modkeep-then-info-fault-" \o ToString(k) \o "-" \o kind \o "-" \o st, preF, postF, [kind |-> "modify", at |-> k, strict |-> TRUE, stamp |-> st, keep |-> TRUE]) IN
                 [b EXCEPT !.steps = << [b.steps[1] EXCEPT !.rules = << FaultRule(32, "i", 1, kind) >> \o @, !.state = @ @@ [f |-> 0, r |-> 0]], b.steps[2] >>]
                 : k \in {3, 4, 6}, kind \in {"cc", "lost"}, st \in {"add", "erase"} }
          \* ... and the same modification without a fault (the time stamps alone must make the walk repeat)
          \cup { LET preF == [i \in 1..3 |-> FullRec(100 * i + bb[2], 50 + i + Seed)]
                     postF == [preF EXCEPT ![1] = FullRec(preF[1].id, 90 + Seed)] IN
                 Script("modkeep-inplace-" \o ToString(k) \o "-" \o st, preF, postF, [kind |-> "modify", at |-> k, strict |-> TRUE, stamp |-> st, keep |-> TRUE])
                 : k \in {3, 4, 6}, st \in {"add", "erase"} }
          \cup { FaultScript("fault-info-" \o ToString(bb[1]) \o "-" \o ToString(i) \o "-" \o kind, pre, 32, "i", i, kind) : i \in 0..1, kind \in {"cc", "lost", "short"} }
          \cup { FaultScript("fault-resv-" \o ToString(bb[1]) \o "-" \o kind, pre, 34, "r", 0, kind) : kind \in {"cc", "lost", "short"} }
          : bb \in (IF Full THEN {<<3, 1>>, <<5, 2>>, <<2, 3>>} ELSE {<<3, 1>>}) }
\* a repository holding a Full Sensor Record that cannot be decoded (shorter than the fixed part; an ID string whose
\* type/length byte promises more bytes than the record has): the retrieval must end with an error, never with a map that
\* contains a zero or half-decoded record (C07: rejected with an error rather than decoded)
BadFull(id, k, how) ==
  LET r == [FsrBase(k) EXCEPT !.id = IdStr(3, 6)]
      good == FsrEnc(r)
      body == CASE how = "short-30" -> Take(good, 30) [] how = "short-42" -> Take(good, 42)
                [] how = "id-overrun" -> Take(good, 42) \o <<good[43] + 9>> \o SubSeq(good, 44, Len(good))
                [] OTHER -> Take(good, 43)          \* the ID string bytes missing altogether
  IN [id |-> id, type |-> 1, body |-> body, r |-> r]
Malformed ==
  { LET pre == Repo(70 + pos, 3, FALSE)
        rp == [i \in 1..Len(pre) |-> IF i = pos THEN BadFull(pre[i].id, 40 + pos, how) ELSE pre[i]]
        b == Script("malformed-" \o how \o "-" \o ToString(pos), rp, <<>>, NoEvent) IN
    [b EXCEPT !.steps = << b.steps[1], [b.steps[2] EXCEPT !.ctx = [ms |-> 1200], !.exp = [prop |-> "C07", outcome |-> "error", value |-> <<>>, maxreqs |-> 400]] >>,
              !.info = [b.info EXCEPT !.event = "malformed-" \o how]]
    : how \in {"short-30", "short-42", "id-overrun", "id-missing"}, pos \in 1..3 }
Scripts == CASE Family = "plain" -> Plainrepos [] Family = "events" -> Events [] Family = "faults" -> Faults [] Family = "malformed" -> Malformed
             [] Family = "events17" -> { [sc EXCEPT !.steps = << sc.steps[1], [sc.steps[2] EXCEPT !.exp.prop = "C17"] >>] : sc \in Events }
Header == [header |-> TRUE, family |-> "sdr", defs |-> SessionDefs(S) @@ [ReqPlainT |-> ReqPlain(S)], stable |-> <<"SIK", "K1", "K2">>,
           session |-> SessionRecipes(S), prefixes |-> [hs |-> HandshakeSteps(S)]]
ASSUME PrintT(<<"HEADER", ToJson(Header)>>)
ASSUME \A s \in Scripts : PrintT(<<"SCRIPT", ToJson(s)>>)
ASSUME PrintT(<<"COUNT", ToJson([n |-> Cardinality(Scripts)])>>)
=============================================================================
