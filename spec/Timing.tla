------------------------------- MODULE Timing -------------------------------
(* Blocking calls and their context (C13): the retry loop of a command or
   set-up payload with an integer clock.  Per-attempt timeouts are nested in the
   caller's context (context.WithTimeout(ctx, s.timeout)), socket deadlines
   come from the per-attempt context (transport.Send), back-off sleeps are
   bounded by the context (backoff.WithContext).  Every blocking stage has the
   upper bound min(stage end, deadline), so a call returns by its deadline; it
   reports success only after a valid response. *)
EXTENDS Integers, TLC

CONSTANTS D,            \* context deadline (clock ticks from the start of the call)
          T,            \* per-attempt timeout
          Bk,           \* back-off interval
          InSession,    \* a lost reply inside a session is terminal
          Faults,       \* subset of {"blackhole", "late", "garbage", "temp", "good"}
          G_Nested,     \* per-attempt deadline = min(now + T, D)
          G_BackoffCtx, \* back-off sleep is cut short by the context
          Dprev,        \* deadline of the context of an earlier call on the same connection that is still alive (0: none)
          G_OwnCtx      \* the retry loop is bound to this call's context (FALSE: to the earlier call's, while that lives)

VARIABLES now, pc, until, arrival, kind, result, retAt, attempts
vars == <<now, pc, until, arrival, kind, result, retAt, attempts>>
Min2(a, b) == IF a < b THEN a ELSE b
None == 0 - 1
\* the deadline the retry loop (its stop test and its sleeps) observes
LoopEnd == IF G_OwnCtx \/ Dprev = 0 THEN D ELSE Dprev

Init == now = 0 /\ pc = "attempt" /\ until = 0 /\ arrival = None /\ kind = "none" /\ result = "pending" /\ retAt = None /\ attempts = 0
Return(r) == result' = r /\ retAt' = now /\ pc' = "done"

\* one iteration of the retry closure: the environment picks this attempt's fault
Attempt(f) ==
  /\ pc = "attempt" /\ attempts' = attempts + 1
  /\ IF now >= D
     THEN \* expired context: the write deadline has passed, nothing is sent; the loop ends with the context's error -
          \* if it is this call's context that the loop watches
          IF now >= LoopEnd THEN Return("error") /\ UNCHANGED <<now, until, arrival, kind>>
          ELSE /\ pc' = "sleep" /\ until' = IF G_BackoffCtx THEN Min2(now + Bk, LoopEnd) ELSE now + Bk
               /\ UNCHANGED <<now, arrival, kind, result, retAt>>
     ELSE /\ until' = IF G_Nested THEN Min2(now + T, D) ELSE now + T
          /\ kind' = f
          /\ arrival' = CASE f = "blackhole" -> None [] f = "late" -> now + T + 1 [] OTHER -> now + 1
          /\ pc' = "wait" /\ UNCHANGED <<now, result, retAt>>
Tick == /\ pc \in {"wait", "sleep"} /\ now < until /\ (pc = "wait" => (arrival = None \/ now < arrival))
        /\ now' = now + 1 /\ UNCHANGED <<pc, until, arrival, kind, result, retAt, attempts>>
Receive ==
  /\ pc = "wait" /\ arrival # None /\ now = arrival /\ arrival <= until
  /\ IF kind = "good" THEN Return("success") /\ UNCHANGED <<now, until, arrival, kind, attempts>>
     ELSE /\ pc' = "sleep" /\ until' = IF G_BackoffCtx THEN Min2(now + Bk, LoopEnd) ELSE now + Bk
          /\ UNCHANGED <<now, arrival, kind, result, retAt, attempts>>
AttemptTimeout ==
  /\ pc = "wait" /\ now = until /\ (arrival = None \/ arrival > until)
  /\ IF InSession THEN Return("error") /\ UNCHANGED <<now, until, arrival, kind, attempts>>
     ELSE /\ pc' = "sleep" /\ until' = IF G_BackoffCtx THEN Min2(now + Bk, LoopEnd) ELSE now + Bk
          /\ UNCHANGED <<now, arrival, kind, result, retAt, attempts>>
Wake ==
  /\ pc = "sleep" /\ now = until
  /\ IF now >= LoopEnd THEN Return("error") /\ UNCHANGED <<now, until, arrival, kind, attempts>>
     ELSE pc' = "attempt" /\ UNCHANGED <<now, until, arrival, kind, result, retAt, attempts>>
Next == (\E f \in Faults : Attempt(f)) \/ Tick \/ Receive \/ AttemptTimeout \/ Wake
Spec == Init /\ [][Next]_vars /\ WF_vars(Next)

C13_ReturnsByDeadline == pc = "done" => retAt <= D
C13_SuccessOnlyWithValidResponse == result = "success" => kind = "good"
C13_NeverBlocksPastDeadline == now <= D
C13_Returns == <>(pc = "done")
=============================================================================
