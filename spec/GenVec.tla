------------------------------- MODULE GenVec -------------------------------
(* Vector generation for the fixed-layout layers (C06, C07, C17, C05): every
   field of every table in LayerTables.tla over its whole domain (all values of
   fields up to 8 bits: "every bit of every flag byte"; boundary and walking-one
   values of wider fields), bodies shorter than the minimum, ordered pairs for
   reuse, and totality inputs (prefixes, byte substitutions, pseudo-random
   strings).  Evaluated, not explored: one ASSUME prints every vector. *)
EXTENDS DcmiCaps, Json

CONSTANTS Seed, Family, Tier

Rnd(k, i) == ((k + 3) * 7919 + (i + 1) * 104729 + (Seed + 1) * 1299709 + (k * i) * 31) % 256
RndBytes(k, n) == [i \in 1..n |-> Rnd(k, i)]

\* shortest body the layer must accept (optional tails excluded)
MinLen(name, T) == CASE name = "GetDeviceIDRsp" -> 11 [] name = "GetChassisStatusRsp4" -> 3 [] name = "GetSessionInfoRsp18" -> 3
                     [] OTHER -> Len(Encode(T, Base(T, 0)))
\* 32-bit durations are evaluated with TLC's 32-bit integers: keep the top byte below 128
Sane(name, rec) == (name = "GetPowerReadingRsp") => rec["periodMs"][4] < 128

RspNames == DOMAIN Tables
DecodeVec(name, rec, cls) ==
  LET T == Tables[name] IN
  [id |-> name \o "/" \o cls, prop |-> "C07", kind |-> "decode", layer |-> GoLayer(name), class |-> cls,
   bytes |-> Encode(T, rec), exp |-> [err |-> FALSE, value |-> Expected(name, T, rec)]]
RspVectors(name) ==
  LET T == Tables[name]
      vs == {r \in Variants(T, Seed) \cup Variants(T, Seed + 1) : Sane(name, r)} IN
  { DecodeVec(name, r, "field-" \o Changed(T, Seed, r)) : r \in vs }
  \* a body shorter than the minimum is rejected
  \cup { [id |-> name \o "/short-" \o ToString(n), prop |-> "C07", kind |-> "decode", layer |-> GoLayer(name), class |-> "short",
          bytes |-> Take(Encode(T, Base(T, Seed)), n), exp |-> [err |-> TRUE]] : n \in 0..(MinLen(name, T) - 1) }
\* optional tails and trailing bytes
Extra ==
  LET d == Base(GetDeviceIDRsp, Seed) IN
  { [id |-> "GetDeviceIDRsp/no-aux", prop |-> "C07", kind |-> "decode", layer |-> "GetDeviceIDRsp", class |-> "optional-tail-absent",
     bytes |-> Take(Encode(GetDeviceIDRsp, d), 11),
     exp |-> [err |-> FALSE, value |-> [Expected("GetDeviceIDRsp", GetDeviceIDRsp, d) EXCEPT !["AuxiliaryFirmwareRevision"] = <<0, 0, 0, 0>>]]] }
  \cup { [id |-> "GetSessionInfoRsp/none-active", prop |-> "C07", kind |-> "decode", layer |-> "GetSessionInfoRsp", class |-> "3-byte form",
          bytes |-> <<0, n, 0>>,
          exp |-> [err |-> FALSE, value |-> [Handle |-> 0, Max |-> n, Active |-> 0, UserID |-> 0, PrivilegeLevel |-> 0, IsIPMIv2 |-> FALSE,
                                             Channel |-> 0, IP |-> <<>>, MAC |-> <<>>, Port |-> 0]]] : n \in {0, 1, 5, 63} }
  \cup { LET r == Base(GetSessionInfoRsp18, Seed + n) IN
         [id |-> "GetSessionInfoRsp/6-byte-" \o ToString(n), prop |-> "C07", kind |-> "decode", layer |-> "GetSessionInfoRsp", class |-> "6-byte form",
          bytes |-> Take(Encode(GetSessionInfoRsp18, r), 6),
          exp |-> [err |-> FALSE, value |-> [Expected("GetSessionInfoRsp18", GetSessionInfoRsp18, r) EXCEPT !["IP"] = <<>>, !["MAC"] = <<>>, !["Port"] = 0]]] : n \in 1..4 }

  \* an active session (non-zero handle) needs at least 6 bytes
  \cup { [id |-> "GetSessionInfoRsp/short-active-" \o ToString(n), prop |-> "C07", kind |-> "decode", layer |-> "GetSessionInfoRsp", class |-> "short",
          bytes |-> Take(<<3, 5, 1, 2, 4, 17>>, n), exp |-> [err |-> TRUE]] : n \in 3..5 }

SensorInfoBytes(total, ids) == <<total, Len(ids)>> \o Flatten([i \in 1..Len(ids) |-> LE16(ids[i])])
\* ------------------------------------------------- DCMI capabilities (DcmiCaps.tla)
CapsDecode(names) ==
  UNION { { [id |-> n \o "/" \o pr[2], prop |-> "C07", kind |-> "decode", layer |-> CapsGoLayer(n),
             class |-> "field-" \o pr[2], bytes |-> Encode(CapsTables[n], pr[1]),
             exp |-> [err |-> FALSE, value |-> CapsExpected(n, pr[1])]] : pr \in CapsVecs(n, Seed) \cup (IF Tier = "thorough" THEN CapsVecs(n, Seed + 1) \cup CapsVecs(n, Seed + 2) ELSE {}) }
          : n \in names }
  \* shorter than the smallest body of the parameter (a 5-byte mandatory body cut to 4 bytes is the v1.0 form, not an error)
  \cup UNION { { [id |-> n \o "/short-" \o ToString(k), prop |-> "C07", kind |-> "decode", layer |-> CapsGoLayer(n), class |-> "short",
                   bytes |-> Take(Encode(CapsTables[n], CapsBase(n, Seed, 3)), k), exp |-> [err |-> TRUE]] : k \in 0..(CapsMinLen(n) - 1) }
                : n \in names \ {"DCMICapsMandatoryPlatformAttrsRsp5"} }
PeriodLists == { [i \in 1..n |-> (i * 37 + n * 11 + Seed) % 256] : n \in 0..9 } \cup { [i \in 1..252 |-> (i * 7) % 256], <<0>>, <<255, 0, 64, 128, 192>> }
PowerStatsDecode ==
  { [id |-> "DCMICapsEnhancedSystemPowerStatisticsAttrsRsp/n" \o ToString(Len(ps)), prop |-> "C07", kind |-> "decode",
     layer |-> "DCMICapsEnhancedSystemPowerStatisticsAttrsRsp", class |-> "periods-" \o ToString(Len(ps)),
     bytes |-> PowerStatsBytes(h, ps), exp |-> [err |-> FALSE, value |-> PowerStatsExpected(h, ps)]]
    : ps \in PeriodLists, h \in {<<1, 5, 2>>, <<1, 1, 1>>} }
  \cup UNION { { [id |-> "DCMICapsEnhancedSystemPowerStatisticsAttrsRsp/short-" \o ToString(c) \o "-" \o ToString(k), prop |-> "C07", kind |-> "decode",
          layer |-> "DCMICapsEnhancedSystemPowerStatisticsAttrsRsp", class |-> "short",
          bytes |-> <<1, 5, 2>> \o Take(<<c>> \o [i \in 1..c |-> i], k), exp |-> [err |-> TRUE]] : k \in 0..c } : c \in {1, 2, 5, 200, 255} }
\* decoding is the same function of the bytes whatever the layer value held before (C07 over histories): the later
\* encoding is decoded into a value that already decoded an earlier one, and must still equal the specification's record
After(layer, cls, first, second, value) ==
  [id |-> layer \o "/after-" \o cls, prop |-> "C07", kind |-> "reuse", layer |-> layer, class |-> "after-" \o cls,
   first |-> first, second |-> second, exp |-> [err |-> FALSE, value |-> value]]
History ==
  UNION { LET T == Tables[name]  r == Base(T, Seed)  o == Base(T, Seed + 5) IN
          IF ~Sane(name, r) THEN {} ELSE
          { After(GoLayer(name), "other-values", Encode(T, o), Encode(T, r), Expected(name, T, r)),
            After(GoLayer(name), "all-ones", Repeat(255, Len(Encode(T, r))), Encode(T, r), Expected(name, T, r)),
            After(GoLayer(name), "longer", Encode(T, o) \o <<9, 9, 9>>, Encode(T, r), Expected(name, T, r)) }
          : name \in RspNames }
  \cup UNION { { After(CapsGoLayer(n), "v" \o ToString(v1) \o "-v" \o ToString(v2), Encode(CapsTables[n], CapsBase(n, Seed + 3, v1)),
                       Encode(CapsTables[n], CapsBase(n, Seed, v2)), CapsExpected(n, CapsBase(n, Seed, v2)))
                  : v1 \in 1..Len(Versions), v2 \in 1..Len(Versions) } : n \in DOMAIN CapsTables }
  \* five-byte then four-byte mandatory attributes, and back
  \cup { After("DCMICapsMandatoryPlatformAttrsRsp", "5-then-4", Encode(Mandatory5W, CapsBase("DCMICapsMandatoryPlatformAttrsRsp5", Seed + 2, 3)),
                Encode(Mandatory4W, CapsBase("DCMICapsMandatoryPlatformAttrsRsp4", Seed, v)),
                CapsExpected("DCMICapsMandatoryPlatformAttrsRsp4", CapsBase("DCMICapsMandatoryPlatformAttrsRsp4", Seed, v))) : v \in 1..3 }
  \* variable-length tails: longer then shorter, shorter then longer, non-empty then empty
  \cup { After("DCMICapsEnhancedSystemPowerStatisticsAttrsRsp", ToString(Len(a)) \o "-then-" \o ToString(Len(c)),
                PowerStatsBytes(<<1, 5, 2>>, a), PowerStatsBytes(<<1, 5, 2>>, c), PowerStatsExpected(<<1, 5, 2>>, c))
          : a \in PeriodLists, c \in {ps \in PeriodLists : Len(ps) <= 5} }
  \cup { After("GetDCMISensorInfoRsp", ToString(a) \o "-then-" \o ToString(c), SensorInfoBytes(a, [i \in 1..a |-> 1000 + i]),
                SensorInfoBytes(9, [i \in 1..c |-> 7 * i]), [Instances |-> 9, RecordIDs |-> [i \in 1..c |-> 7 * i]]) : a \in {0, 1, 3, 8, 9, 40}, c \in {0, 1, 2, 8, 9, 17, 100} }
  \cup { After("GetChannelCipherSuitesRsp", ToString(a) \o "-then-" \o ToString(c), <<14>> \o [i \in 1..a |-> 200 + i],
                <<1>> \o [i \in 1..c |-> i], [Channel |-> 1, CipherSuiteRecordsChunk |-> [i \in 1..c |-> i]]) : a \in {0, 5, 16}, c \in {0, 3, 16} }

\* --------------------------------------------------------------------- requests
ReqTables == [GetChannelAuthenticationCapabilitiesReq |-> GetChannelAuthenticationCapabilitiesReq, GetChannelCipherSuitesReq |-> GetChannelCipherSuitesReq,
              SetSessionPrivilegeLevelReq |-> SetSessionPrivilegeLevelReq, CloseSessionReq |-> CloseSessionReq, ChassisControlReq |-> ChassisControlReq,
              GetSDRReq |-> GetSDRReq, GetSensorReadingReq |-> GetSensorReadingReq, GetDCMISensorInfoReq |-> GetDCMISensorInfoReq]
ReqOk(name, r) == /\ (name = "SetSessionPrivilegeLevelReq" => r["PrivilegeLevel"] # 1)      \* 1h is not a settable level (22.18)
                  /\ (name = "CloseSessionReq" => r["ID"] # <<0, 0, 0, 0>>)                  \* ID 0 selects by handle (extra byte)
\* DCMI 6.5.2: the instance start offset only applies to "all instances" (instance 0); it is sent as 0 otherwise
ReqEncode(name, T, r) == IF name = "GetDCMISensorInfoReq" /\ r["Instance"] # 0 THEN Encode(T, [r EXCEPT !["InstanceStart"] = 0]) ELSE Encode(T, r)
ReqVectors(name) ==
  LET T == ReqTables[name]
      vs == {r \in Variants(T, Seed) \cup Variants(T, Seed + 1) \cup Variants(T, 0) : ReqOk(name, r)} IN
  { [id |-> name \o "/" \o Changed(T, Seed, r), prop |-> "C06", kind |-> "serialize", layer |-> name, class |-> "field-" \o Changed(T, Seed, r),
     fields |-> r, payload |-> <<>>, exp |-> [err |-> FALSE, bytes |-> ReqEncode(name, T, r)]] : r \in vs }
\* 22.20 Get Session Info request: index, then a handle (FEh) or a session ID (FFh)
SessionInfoReqs ==
  { [id |-> "GetSessionInfoReq/index-" \o ToString(i), prop |-> "C06", kind |-> "serialize", layer |-> "GetSessionInfoReq", class |-> "by-index",
     fields |-> [Index |-> i, Handle |-> 9, ID |-> <<1, 2, 3, 4>>], payload |-> <<>>, exp |-> [err |-> FALSE, bytes |-> <<i>>]] : i \in 0..253 }
  \cup { [id |-> "GetSessionInfoReq/handle-" \o ToString(h), prop |-> "C06", kind |-> "serialize", layer |-> "GetSessionInfoReq", class |-> "by-handle",
          fields |-> [Index |-> 254, Handle |-> h, ID |-> <<1, 2, 3, 4>>], payload |-> <<>>, exp |-> [err |-> FALSE, bytes |-> <<254, h>>]] : h \in 0..255 }
  \cup { [id |-> "GetSessionInfoReq/id-" \o ToString(k), prop |-> "C06", kind |-> "serialize", layer |-> "GetSessionInfoReq", class |-> "by-id",
          fields |-> [Index |-> 255, Handle |-> 7, ID |-> RndBytes(k, 4)], payload |-> <<>>, exp |-> [err |-> FALSE, bytes |-> <<255>> \o RndBytes(k, 4)]] : k \in 1..40 }
CloseByHandle ==
  { [id |-> "CloseSessionReq/handle-" \o ToString(h), prop |-> "C06", kind |-> "serialize", layer |-> "CloseSessionReq", class |-> "by-handle",
     fields |-> [ID |-> <<0, 0, 0, 0>>, Handle |-> h], payload |-> <<>>, exp |-> [err |-> FALSE, bytes |-> <<0, 0, 0, 0, h>>]] : h \in 0..255 }

\* ------------------------------------------------------------------------ reuse
\* members of different classes for one layer; every ordered pair (earlier, later)
Members(name) ==
  LET T == Tables[name]
      b == Encode(T, Base(T, Seed))  b2 == Encode(T, Base(T, Seed + 7)) IN
  { <<"base", b>>, <<"base2", b2>>, <<"zeros", Repeat(0, Len(b))>>, <<"ones", Repeat(255, Len(b))>>, <<"longer", b \o <<1, 2, 3>>>> }
  \cup (IF name = "GetDeviceIDRsp" THEN { <<"no-aux", Take(b, 11)>>, <<"no-aux2", Take(b2, 11)>> } ELSE {})
  \cup (IF name = "GetChassisStatusRsp4" THEN { <<"3-byte", Take(b, 3)>>, <<"3-byte-ones", <<255, 255, 255>>>> } ELSE {})
  \cup (IF name = "GetSessionInfoRsp18" THEN { <<"3-byte", <<0, 5, 0>>>>, <<"6-byte", Take(b, 6)>>, <<"6-byte2", Take(b2, 6)>> } ELSE {})
ReuseVectors(name) ==
  { [id |-> name \o "/" \o a[1] \o "->" \o c[1], prop |-> "C17", kind |-> "reuse", layer |-> GoLayer(name), class |-> a[1] \o "->" \o c[1],
     first |-> a[2], second |-> c[2], exp |-> [any |-> TRUE]] : a \in Members(name), c \in Members(name) }

CapsReuse ==
  UNION { LET T == CapsTables[n]
              ms == { <<"v" \o ToString(v), Encode(T, CapsBase(n, Seed, v))>> : v \in 1..Len(Versions) }
                    \cup { <<"w" \o ToString(v), Encode(T, CapsBase(n, Seed + 9, v))>> : v \in {1, 3} }
                    \cup { <<"zeros", Repeat(0, CapsMinLen(n))>>, <<"ones", Repeat(255, CapsMinLen(n))>> }
          IN { [id |-> n \o "/" \o a[1] \o "->" \o c[1], prop |-> "C17", kind |-> "reuse", layer |-> CapsGoLayer(n), class |-> a[1] \o "->" \o c[1],
                first |-> a[2], second |-> c[2], exp |-> [any |-> TRUE]] : a \in ms, c \in ms }
          : n \in DOMAIN CapsTables }
  \cup { [id |-> "DCMICapsMandatoryPlatformAttrsRsp/mixed-" \o ToString(i) \o ToString(j), prop |-> "C17", kind |-> "reuse", layer |-> "DCMICapsMandatoryPlatformAttrsRsp",
          class |-> "4-vs-5-byte", first |-> (IF i = 4 THEN Encode(Mandatory4W, CapsBase("DCMICapsMandatoryPlatformAttrsRsp4", Seed, 3)) ELSE Encode(Mandatory5W, CapsBase("DCMICapsMandatoryPlatformAttrsRsp5", Seed + 1, 3))),
          second |-> (IF j = 4 THEN Encode(Mandatory4W, CapsBase("DCMICapsMandatoryPlatformAttrsRsp4", Seed + 2, 2)) ELSE Encode(Mandatory5W, CapsBase("DCMICapsMandatoryPlatformAttrsRsp5", Seed + 3, 2))),
          exp |-> [any |-> TRUE]] : i \in {4, 5}, j \in {4, 5} }
  \cup { [id |-> "DCMICapsEnhancedSystemPowerStatisticsAttrsRsp/" \o ToString(Len(a)) \o "->" \o ToString(Len(c)), prop |-> "C17", kind |-> "reuse",
          layer |-> "DCMICapsEnhancedSystemPowerStatisticsAttrsRsp", class |-> "periods",
          first |-> PowerStatsBytes(<<1, 5, 2>>, a), second |-> PowerStatsBytes(<<1, 1, 1>>, c), exp |-> [any |-> TRUE]] : a \in PeriodLists, c \in PeriodLists }
\* variable-length layers without a fixed table: DCMI sensor info (count + record IDs), cipher suite chunks
VarReuse ==
  LET si == { <<"n0", SensorInfoBytes(0, <<>>)>>, <<"n1", SensorInfoBytes(9, <<4660>>)>>, <<"n3", SensorInfoBytes(3, <<1, 2, 3>>)>>,
              <<"n8", SensorInfoBytes(12, <<11, 12, 13, 14, 15, 16, 17, 18>>)>>, <<"n2", SensorInfoBytes(2, <<65534, 258>>)>>,
              <<"n9", SensorInfoBytes(20, [i \in 1..9 |-> 100 + i])>>, <<"n20", SensorInfoBytes(20, [i \in 1..20 |-> 300 + i])>>,
              <<"n127", SensorInfoBytes(127, [i \in 1..127 |-> 1000 + i])>> }
      cs == { <<"c0", <<14>>>>, <<"c16", <<14>> \o [i \in 1..16 |-> i]>>, <<"c5", <<1, 192, 3, 1, 65, 129>>>> }
  IN { [id |-> "GetDCMISensorInfoRsp/" \o a[1] \o "->" \o c[1], prop |-> "C17", kind |-> "reuse", layer |-> "GetDCMISensorInfoRsp", class |-> a[1] \o "->" \o c[1],
        first |-> a[2], second |-> c[2], exp |-> [any |-> TRUE]] : a \in si, c \in si }
     \cup { [id |-> "GetChannelCipherSuitesRsp/" \o a[1] \o "->" \o c[1], prop |-> "C17", kind |-> "reuse", layer |-> "GetChannelCipherSuitesRsp", class |-> a[1] \o "->" \o c[1],
              first |-> a[2], second |-> c[2], exp |-> [any |-> TRUE]] : a \in cs, c \in cs }
\* and their decoding (C07): every count 0..8 of record IDs; every chunk length 0..16
VarDecode ==
  { [id |-> "GetDCMISensorInfoRsp/dec-" \o ToString(n), prop |-> "C07", kind |-> "decode", layer |-> "GetDCMISensorInfoRsp", class |-> "count-" \o ToString(n),
     bytes |-> SensorInfoBytes(200 + n, [i \in 1..n |-> (i * 4099 + n) % 65536]),
     exp |-> [err |-> FALSE, value |-> [Instances |-> 200 + n, RecordIDs |-> [i \in 1..n |-> (i * 4099 + n) % 65536]]]] : n \in 0..8 }
  \cup { [id |-> "GetDCMISensorInfoRsp/short-" \o ToString(n) \o "-" \o ToString(c), prop |-> "C07", kind |-> "decode", layer |-> "GetDCMISensorInfoRsp", class |-> "short",
          bytes |-> Take(SensorInfoBytes(5, [i \in 1..c |-> i]), Min(n, 1 + 2 * c)), exp |-> [err |-> TRUE]] : c \in {1, 2, 8, 127, 128, 200, 255}, n \in {0, 1, 2, 3, 4, 5, 17, 511} }
  \cup { [id |-> "GetChannelCipherSuitesRsp/dec-" \o ToString(n), prop |-> "C07", kind |-> "decode", layer |-> "GetChannelCipherSuitesRsp", class |-> "chunk-" \o ToString(n),
          bytes |-> <<14>> \o [i \in 1..n |-> (i * 9) % 256], exp |-> [err |-> FALSE, value |-> [Channel |-> 14, CipherSuiteRecordsChunk |-> [i \in 1..n |-> (i * 9) % 256]]]] : n \in 0..16 }

\* -------------------------------------------------------------------- totality
AllLayers == {"Message", "V1Session", "V2Session", "SessionSelector", "OpenSessionRsp", "RAKPMessage1", "RAKPMessage2", "RAKPMessage4",
              "GetDeviceIDRsp", "GetChassisStatusRsp", "GetSystemGUIDRsp", "GetChannelAuthenticationCapabilitiesRsp", "GetChannelCipherSuitesRsp",
              "GetSessionInfoRsp", "SetSessionPrivilegeLevelRsp", "GetSDRRepositoryInfoRsp", "ReserveSDRRepositoryRsp", "GetSDRRsp", "SDR",
              "FullSensorRecord", "GetSensorReadingRsp", "GetPowerReadingRsp", "GetDCMISensorInfoRsp", "DCMICapsSupportedCapabilitiesRsp",
              "DCMICapsMandatoryPlatformAttrsRsp", "DCMICapsOptionalPlatformAttrsRsp", "DCMICapsManageabilityAccessAttrsRsp",
              "DCMICapsEnhancedSystemPowerStatisticsAttrsRsp"}
AnyExp == [any |-> TRUE]
TotalVec(layer, cls, k, bytes) == [id |-> layer \o "/" \o cls \o "-" \o ToString(k), prop |-> "C05", kind |-> "decode", layer |-> layer, class |-> cls,
                                   bytes |-> bytes, exp |-> AnyExp]
Subst == {0, 127, 128, 255}
Totality ==
  LET lens == IF Tier = "thorough" THEN 0..64 ELSE {0, 1, 2, 3, 4, 5, 6, 7, 8, 9, 10, 11, 12, 15, 16, 17, 18, 19, 20, 23, 24, 31, 32, 35, 36, 40, 41, 47, 48, 63, 64}
      reps == IF Tier = "thorough" THEN 1..6 ELSE 1..2
  IN UNION { { TotalVec(L, "random", n * 10 + j, RndBytes(n * 31 + j, n)) : n \in lens, j \in reps }
             \cup { TotalVec(L, "random-long", n, RndBytes(n, n)) : n \in {500, 511, 512} }
             \cup { TotalVec(L, "const", n * 256 + v, Repeat(v, n)) : n \in {1, 2, 3, 5, 7, 8, 16, 17, 40, 64}, v \in {0, 1, 127, 128, 255} }
             : L \in AllLayers }
     \cup UNION { LET T == Tables[name]  b == Encode(T, Base(T, Seed)) IN
                  { TotalVec(GoLayer(name), "prefix", n, Take(b, n)) : n \in 0..Len(b) }
                  \cup { TotalVec(GoLayer(name), "subst", i * 256 + v, [b EXCEPT ![i] = v]) : i \in 1..Len(b), v \in Subst }
                  : name \in RspNames }

Vectors == CASE Family = "rsp" -> UNION { RspVectors(n) : n \in RspNames } \cup Extra \cup VarDecode \cup History
             [] Family = "caps1" -> CapsDecode({"DCMICapsSupportedCapabilitiesRsp", "DCMICapsOptionalPlatformAttrsRsp", "DCMICapsManageabilityAccessAttrsRsp"})
             [] Family = "caps2" -> CapsDecode({"DCMICapsMandatoryPlatformAttrsRsp4", "DCMICapsMandatoryPlatformAttrsRsp5"}) \cup PowerStatsDecode
             [] Family = "req" -> UNION { ReqVectors(n) : n \in DOMAIN ReqTables } \cup SessionInfoReqs \cup CloseByHandle
             [] Family = "reuse" -> UNION { ReuseVectors(n) : n \in RspNames } \cup VarReuse \cup CapsReuse
             [] Family = "totality" -> Totality
ASSUME \A v \in Vectors : PrintT(<<"SCRIPT", ToJson(v)>>)
ASSUME PrintT(<<"COUNT", ToJson([n |-> Cardinality(Vectors)])>>)
=============================================================================
