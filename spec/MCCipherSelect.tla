--------------------------- MODULE MCCipherSelect ---------------------------
EXTENDS CipherSelect
Std(id, auth, integs, confs) == [oem |-> FALSE, id |-> id, en |-> <<0, 0, 0>>, auth |-> auth, integs |-> integs, confs |-> confs]
Oem(id, en, auth, integs, confs) == [oem |-> TRUE, id |-> id, en |-> en, auth |-> auth, integs |-> integs, confs |-> confs]
\* 5, 5, 3, 10 and 6 bytes: lists of up to three records span 1..2 chunks, including exactly 16 bytes (10 + 6)
U5 == { Std(17, 3, <<4>>, <<1>>), Std(3, 1, <<1>>, <<1>>), Std(1, 1, <<>>, <<>>),
        Oem(128, <<171, 2, 0>>, 1, <<1, 2>>, <<1, 2>>), Std(8, 2, <<2, 3>>, <<1>>) }
CorrAll == {"none", "trailing", "trunc1", "trunc2", "oemtrunc", "badauth"}
CorrNone == {"none"}
\* list indices at which the BMC refuses once during the first discovery (-1: never)
RefusalsDef == {-1, 0, 1}
\* selection is a pure function: checked exhaustively over preference lists and advertised sets
SelU == {<<3, 4, 1>>, <<1, 1, 1>>, <<2, 2, 1>>, <<1, 0, 0>>, <<1, 2, 1>>}
RECURSIVE Inj(_, _)
Inj(S, n) == IF n = 0 THEN {<<>>} ELSE {Append(s, x) : s \in Inj(S, n - 1), x \in S}
Prefs == UNION {Inj(SelU, n) : n \in 0..3}
ASSUME \A p \in Prefs : \A adv \in SUBSET SelU :
         LET r == Select(p, adv)  e == Eff(p) IN
         /\ (Len(e) = 1) => (r.kind = "propose" /\ r.suite = e[1] /\ ~r.discovery)                       \* SingleSkipsDiscovery
         /\ (Len(e) > 1 /\ r.kind = "propose") =>
              (r.suite \in adv /\ \E i \in 1..Len(e) : e[i] = r.suite /\ \A j \in 1..(i - 1) : e[j] \notin adv) \* ProposesFirstSupported
         /\ (Len(e) > 1 /\ (\A i \in 1..Len(e) : e[i] \notin adv)) => r.kind = "ErrNoSupportedCipherSuite"  \* NoSupportedGivesError
         /\ (p = <<>> /\ <<3, 4, 1>> \in adv) => r.suite = <<3, 4, 1>>                                     \* EmptyMeans17Then3
         /\ (p = <<>> /\ <<3, 4, 1>> \notin adv /\ <<1, 1, 1>> \in adv) => r.suite = <<1, 1, 1>>
=============================================================================
