package main

// Protocol-agnostic term evaluator. Terms arrive from TLC (spec/Terms.tla) as
// JSON trees; this file knows nothing about IPMI: it concatenates, slices,
// hashes and encrypts with the standard library as the term says.

import (
	"bytes"
	"crypto/aes"
	"crypto/cipher"
	"crypto/hmac"
	"crypto/md5"
	"crypto/sha1"
	"crypto/sha256"
	"fmt"
	"hash"
)

type M = map[string]any

type env struct {
	req   []byte            // the datagram the library just transmitted
	vars  map[string][]byte // named captures
	defs  M                 // shared sub-terms (header "defs")
	memo  map[string][]byte // memoised defs flagged as stable
	stab  map[string]bool   // names of defs that may be memoised once their captures exist
	state map[string]int    // scripted-BMC counters (rule effects), readable as 16-bit little-endian terms
}

func newEnv(defs M, stable []any) *env {
	e := &env{vars: map[string][]byte{}, defs: defs, memo: map[string][]byte{}, stab: map[string]bool{}}
	for _, s := range stable {
		e.stab[s.(string)] = true
	}
	return e
}

func ints(v any) []byte {
	a, _ := v.([]any)
	b := make([]byte, len(a))
	for i, x := range a {
		b[i] = byte(int(x.(float64)))
	}
	return b
}

func toInts(b []byte) []int {
	o := make([]int, len(b))
	for i, x := range b {
		o[i] = int(x)
	}
	return o
}

func m(v any) M {
	r, ok := v.(map[string]any)
	if !ok {
		panic(fmt.Sprintf("harness: expected object, got %T %v", v, v))
	}
	return r
}

func num(v any) int { return int(v.(float64)) }

func hashOf(a any) func() hash.Hash {
	switch a {
	case "sha1":
		return sha1.New
	case "md5":
		return md5.New
	case "sha256":
		return sha256.New
	}
	panic(fmt.Sprint("harness: unknown hash ", a))
}

func idx(i, n int) int {
	if i < 0 {
		return i + n
	}
	return i
}

type evalErr struct{ s string }

func (e *env) eval(t M) []byte {
	switch t["op"] {
	case "bytes":
		return ints(t["v"])
	case "cat":
		var out []byte
		for _, p := range t["parts"].([]any) {
			out = append(out, e.eval(m(p))...)
		}
		return out
	case "hmac":
		h := hmac.New(hashOf(t["alg"]), e.eval(m(t["key"])))
		h.Write(e.eval(m(t["msg"])))
		return h.Sum(nil)
	case "md5":
		s := md5.Sum(e.eval(m(t["msg"])))
		return s[:]
	case "trunc":
		b := e.eval(m(t["of"]))
		n := num(t["n"])
		if n > len(b) {
			n = len(b)
		}
		return b[:n]
	case "slice": // from/to: negative = from the end; to = -1 = end
		b := e.eval(m(t["of"]))
		from, to := num(t["from"]), num(t["to"])
		from = idx(from, len(b))
		if to == -1 {
			to = len(b)
		} else {
			to = idx(to, len(b))
		}
		if from < 0 || from > to || to > len(b) {
			return nil
		}
		return b[from:to]
	case "slicedyn": // of[from : base + LE16(lenfrom)]
		b := e.eval(m(t["of"]))
		l := e.eval(m(t["lenfrom"]))
		if len(l) < 2 {
			return nil
		}
		from := num(t["from"])
		to := num(t["base"]) + int(l[0]) + 256*int(l[1])
		if from > to || to > len(b) {
			return nil
		}
		return b[from:to]
	case "sliceby": // of[LE(fromAt) : LE(fromAt)+LE(lenAt)] clipped to the end; fromAt/lenAt are terms of 1 or 2 bytes
		b := e.eval(m(t["of"]))
		from := leInt(e.eval(m(t["fromAt"])))
		n := leInt(e.eval(m(t["lenAt"])))
		if from > len(b) {
			return nil
		}
		to := from + n
		if to > len(b) {
			to = len(b)
		}
		return b[from:to]
	case "obs":
		return e.req
	case "var":
		return e.vars[t["name"].(string)]
	case "ref":
		n := t["name"].(string)
		if v, ok := e.memo[n]; ok {
			return v
		}
		d, ok := e.defs[n]
		if !ok {
			panic("harness: undefined ref " + n)
		}
		v := e.eval(m(d))
		if e.stab[n] {
			e.memo[n] = v
		}
		return v
	case "aescbc":
		key := e.eval(m(t["key"]))
		p := e.eval(m(t["plain"]))
		iv := e.eval(m(t["iv"]))
		c, err := aes.NewCipher(key)
		if err != nil || len(p)%16 != 0 || len(iv) != 16 {
			panic(fmt.Sprintf("harness: bad aescbc term key=%d plain=%d iv=%d", len(key), len(p), len(iv)))
		}
		out := make([]byte, len(p))
		cipher.NewCBCEncrypter(c, iv).CryptBlocks(out, p)
		return out
	case "aescbcdec":
		key := e.eval(m(t["key"]))
		ct := e.eval(m(t["ct"]))
		iv := e.eval(m(t["iv"]))
		c, err := aes.NewCipher(key)
		if err != nil || len(ct) == 0 || len(ct)%16 != 0 || len(iv) != 16 {
			return nil
		}
		out := make([]byte, len(ct))
		cipher.NewCBCDecrypter(c, iv).CryptBlocks(out, ct)
		return out
	case "flip": // flip bit `bit` (0 = least significant bit of byte 0)
		b := append([]byte(nil), e.eval(m(t["of"]))...)
		bit := num(t["bit"])
		if bit/8 < len(b) {
			b[bit/8] ^= 1 << (bit % 8)
		}
		return b
	case "setbyte":
		b := append([]byte(nil), e.eval(m(t["of"]))...)
		at := idx(num(t["at"]), len(b))
		if at >= 0 && at < len(b) {
			b[at] = byte(num(t["v"]))
		}
		return b
	case "lookup": // table keyed by the hex of the evaluated key; default otherwise
		key := fmt.Sprintf("%x", e.eval(m(t["key"])))
		if v, ok := m(t["table"])[key]; ok {
			return e.eval(m(v))
		}
		return e.eval(m(t["default"]))
	case "state16": // current value of a scripted-BMC counter, little-endian 16 bits
		n := e.state[t["name"].(string)]
		return []byte{byte(n), byte(n >> 8)}
	case "len16":
		n := len(e.eval(m(t["of"])))
		return []byte{byte(n), byte(n >> 8)}
	case "padseq": // append 1,2,..,p,p so that the total is a multiple of `block`
		b := append([]byte(nil), e.eval(m(t["of"]))...)
		blk := num(t["block"])
		p := (blk - 1) - len(b)%blk
		for i := 1; i <= p; i++ {
			b = append(b, byte(i))
		}
		return append(b, byte(p))
	case "padff": // append p bytes 0xFF, p, `last` so that len+2 is a multiple of `align`
		b := append([]byte(nil), e.eval(m(t["of"]))...)
		al := num(t["align"])
		p := (al - (len(b)+2)%al) % al
		for i := 0; i < p; i++ {
			b = append(b, 0xff)
		}
		return append(b, byte(p), byte(num(t["last"])))
	case "cksum": // two's complement checksum byte of the operand
		var c byte
		for _, x := range e.eval(m(t["of"])) {
			c += x
		}
		return []byte{-c}
	case "addbyte":
		b := append([]byte(nil), e.eval(m(t["of"]))...)
		at := idx(num(t["at"]), len(b))
		if at >= 0 && at < len(b) {
			b[at] += byte(num(t["v"]))
		}
		return b
	case "eq":
		if bytes.Equal(e.eval(m(t["a"])), e.eval(m(t["b"]))) {
			return []byte{1}
		}
		return []byte{0}
	case "and":
		for _, p := range t["parts"].([]any) {
			v := e.eval(m(p))
			if len(v) != 1 || v[0] != 1 {
				return []byte{0}
			}
		}
		return []byte{1}
	case "capture":
		v := append([]byte(nil), e.eval(m(t["of"]))...)
		e.vars[t["name"].(string)] = v
		e.memo = map[string][]byte{} // shared definitions may depend on captures
		return v
	}
	panic(fmt.Sprint("harness: unknown term op ", t["op"]))
}

func leInt(b []byte) int {
	n := 0
	for i := len(b) - 1; i >= 0; i-- {
		n = n<<8 | int(b[i])
	}
	return n
}

func (e *env) truth(t M) bool {
	v := e.eval(t)
	return len(v) == 1 && v[0] == 1
}
