------------------------------ MODULE DcmiCaps ------------------------------
(* Get DCMI Capabilities Info responses (DCMI v1.0 / v1.1 / v1.5 section 6.1,
   table 6-3), after the completion code and the group extension byte DCh.
   Every response starts with the three-byte header: DCMI specification
   conformance (major, minor) and parameter revision.

   The five parameters differ in what the specification revisions define:
   bits that v1.0 reports and v1.1/v1.5 made reserved because the capability
   became mandatory are reported as TRUE by the library for the later
   revisions (its documented API), and that is what Expected says.

   Wire tables are Layout tables (so that Layout!Encode / Variants apply);
   reserved bits are ordinary fields here, named r*, so that the enumeration
   also sets them: they must not influence the decoded value.

   Stated convention, not derivable offline from the DCMI text: the 12-bit
   "number of SEL entries" is read as (low nibble of byte 1) + 256 * byte 2,
   as the library documents on SELMaxEntries and its own tests pin. *)
EXTENDS LayerExpect, Prims

CapsHdr == << U8("MajorVersion"), U8("MinorVersion"), U8("Revision") >>

\* parameter 1: Supported DCMI Capabilities
SupportedW == CapsHdr \o <<
  BitsItem(<< UInt("r1", 7, 4), Bool("wTemperatureMonitor", 3), Bool("wChassisPower", 2), Bool("wSELLogging", 1), Bool("wIdentification", 0) >>),
  BitsItem(<< UInt("r2", 7, 1), Bool("PowerManagement", 0) >>),
  BitsItem(<< UInt("r3", 7, 6), Bool("wVLANCapable", 5), Bool("wSOLSupported", 4), Bool("wOOBPrimary", 3),
              Bool("OOBSecondaryLANChannelAvailable", 2), Bool("SerialTMODEAvailable", 1), Bool("wBit0", 0) >>) >>
\* parameter 2: Mandatory Platform Attributes (v1.0: 4 bytes; v1.1 and later: 5 bytes)
Mandatory4W == CapsHdr \o <<
  BitsItem(<< Bool("SELAutoRollover", 7), Bool("wFlush", 6), Bool("wRecordFlush", 5), UInt("r4", 4, 4), UInt("selLo", 3, 0) >>),
  U8("selHi"),
  BitsItem(<< UInt("r5", 7, 3), Bool("wAssetTag", 2), Bool("wDHCPHostName", 1), Bool("wGUID", 0) >>),
  BitsItem(<< UInt("r6", 7, 3), Bool("wBaseboard", 2), Bool("wProcessors", 1), Bool("wInlet", 0) >>) >>
Mandatory5W == Mandatory4W \o << U8("samplingSeconds") >>
\* parameter 3: Optional Platform Attributes
OptionalW == CapsHdr \o <<
  BitsItem(<< UInt("PowerManagementSlaveAddress", 7, 1), UInt("r7", 0, 0) >>),
  BitsItem(<< UInt("PowerManagementChannel", 7, 4), UInt("PowerManagementRevision", 3, 0) >>) >>
\* parameter 4: Manageability Access Attributes (FFh = not supported)
ManageabilityW == CapsHdr \o << U8("PrimaryLANOOBChannel"), U8("SecondaryLANOOBChannel"), U8("SerialOOBChannel") >>

CapsTables == [DCMICapsSupportedCapabilitiesRsp |-> SupportedW, DCMICapsMandatoryPlatformAttrsRsp4 |-> Mandatory4W,
               DCMICapsMandatoryPlatformAttrsRsp5 |-> Mandatory5W, DCMICapsOptionalPlatformAttrsRsp |-> OptionalW,
               DCMICapsManageabilityAccessAttrsRsp |-> ManageabilityW]
CapsGoLayer(n) == IF n \in {"DCMICapsMandatoryPlatformAttrsRsp4", "DCMICapsMandatoryPlatformAttrsRsp5"} THEN "DCMICapsMandatoryPlatformAttrsRsp" ELSE n
CapsMinLen(n) == Len(Encode(CapsTables[n], Base(CapsTables[n], 0)))

HdrOf(r) == [MajorVersion |-> r["MajorVersion"], MinorVersion |-> r["MinorVersion"], Revision |-> r["Revision"]]
IsV10(r) == r["MajorVersion"] = 1 /\ r["MinorVersion"] = 0
Sec(n) == [s |-> n, ns |-> 0]

CapsExpected(n, r) ==
  LET old == IsV10(r) IN
  CASE n = "DCMICapsSupportedCapabilitiesRsp" ->
         HdrOf(r) @@ [TemperatureMonitor |-> IF old THEN r["wTemperatureMonitor"] ELSE TRUE,
                      ChassisPower |-> IF old THEN r["wChassisPower"] ELSE TRUE,
                      SELLogging |-> IF old THEN r["wSELLogging"] ELSE TRUE,
                      Identification |-> IF old THEN r["wIdentification"] ELSE TRUE,
                      PowerManagement |-> r["PowerManagement"],
                      VLANCapable |-> IF old THEN r["wVLANCapable"] ELSE TRUE,
                      SOLSupported |-> IF old THEN r["wSOLSupported"] ELSE TRUE,
                      OOBPrimaryLANChannelAvailable |-> IF old THEN r["wOOBPrimary"] ELSE TRUE,
                      OOBSecondaryLANChannelAvailable |-> r["OOBSecondaryLANChannelAvailable"],
                      SerialTMODEAvailable |-> r["SerialTMODEAvailable"],
                      \* bit 0: in-band KCS channel in v1.0; in-band system interface channel later (KCS then being mandatory)
                      IBKCSChannelAvailable |-> IF old THEN r["wBit0"] ELSE TRUE,
                      IBSystemInterfaceChannelAvailable |-> IF old THEN FALSE ELSE r["wBit0"]]
    [] n \in {"DCMICapsMandatoryPlatformAttrsRsp4", "DCMICapsMandatoryPlatformAttrsRsp5"} ->
         \* a four-byte body is the v1.0 layout whatever the header claims (the library's documented tolerance)
         LET v10 == old \/ n = "DCMICapsMandatoryPlatformAttrsRsp4" IN
         HdrOf(r) @@ [SELAutoRollover |-> r["SELAutoRollover"],
                      SELFlushOnRollover |-> IF v10 THEN FALSE ELSE r["wFlush"],
                      SELRecordLevelFlushOnRollover |-> IF v10 THEN FALSE ELSE r["wRecordFlush"],
                      SELMaxEntries |-> r["selLo"] + 256 * r["selHi"],
                      AssetTagSupport |-> IF v10 THEN r["wAssetTag"] ELSE TRUE,
                      DHCPHostNameSupport |-> IF v10 THEN r["wDHCPHostName"] ELSE TRUE,
                      GUIDSupport |-> IF v10 THEN r["wGUID"] ELSE TRUE,
                      BaseboardTemperature |-> IF v10 THEN r["wBaseboard"] ELSE TRUE,
                      ProcessorsTemperature |-> IF v10 THEN r["wProcessors"] ELSE TRUE,
                      InletTemperature |-> IF v10 THEN r["wInlet"] ELSE TRUE,
                      TemperatureSamplingFrequency |-> IF v10 THEN Sec(0) ELSE Sec(r["samplingSeconds"])]
    [] n = "DCMICapsOptionalPlatformAttrsRsp" ->
         HdrOf(r) @@ [PowerManagementSlaveAddress |-> r["PowerManagementSlaveAddress"], PowerManagementChannel |-> r["PowerManagementChannel"],
                      PowerManagementRevision |-> r["PowerManagementRevision"]]
    [] n = "DCMICapsManageabilityAccessAttrsRsp" ->
         HdrOf(r) @@ [PrimaryLANOOBChannel |-> r["PrimaryLANOOBChannel"], SecondaryLANOOBChannel |-> r["SecondaryLANOOBChannel"],
                      SerialOOBChannel |-> r["SerialOOBChannel"]]

\* base records for each conformance level the specification has had, and one unknown one
Versions == << <<1, 0>>, <<1, 1>>, <<1, 5>>, <<2, 0>> >>
CapsBase(n, seed, v) == [Base(CapsTables[n], seed) EXCEPT !["MajorVersion"] = Versions[v][1], !["MinorVersion"] = Versions[v][2]]
\* <<record, class>> pairs: every field over its whole domain around the base of each conformance level (the header
\* bytes themselves only around the v1.0 base: all 256 majors with minor 0, all 256 minors with major 1)
CapsVecs(n, seed) ==
  LET T == CapsTables[n]  names == Names(T) IN
  UNION { LET b == CapsBase(n, seed, v) IN
          UNION { { << [b EXCEPT ![nm] = x], nm \o "-v" \o ToString(v) >> : x \in Dom(T, nm) }
                  : nm \in (IF v = 1 THEN names ELSE names \ {"MajorVersion", "MinorVersion", "Revision"}) }
          : v \in 1..Len(Versions) }

\* parameter 5: Enhanced System Power Statistics Attributes: count, then one byte per rolling average time period
\* ([7:6] unit: seconds, minutes, hours, days; [5:0] duration)
PowerStatsBytes(hdr, periods) == hdr \o <<Len(periods)>> \o periods
PowerStatsExpected(hdr, periods) ==
  [MajorVersion |-> hdr[1], MinorVersion |-> hdr[2], Revision |-> hdr[3],
   PowerRollingAvgTimePeriods |-> [i \in 1..Len(periods) |-> Sec(RollingSeconds(periods[i]))]]
=============================================================================
