--------------------------- MODULE TraceHandshake ---------------------------
(* Trace validation for session establishment and the commands that follow it
   (C01, C02, C12; handshake parts of C05, C06, C09, C10).  Same observer
   structure as TraceConsole: every event is consumable, deviations are
   collected as signatures, POSTCONDITION fails on an unlisted one.

   TLC parses the Open Session Request, RAKP 1 and RAKP 3 the library put on
   the wire (13.17, 13.20, 13.22) and compares their fields with the caller's
   arguments; the simulated BMC's verdict on RAKP 3 and on every in-session
   packet comes from the key terms of Crypto.tla. *)
EXTENDS Wire, Json, IOUtils, TLC, FiniteSets, MetricsLaw

Trace == ndJsonDeserialize(IOEnv.VERIF_TRACE)
Cfg   == JsonDeserialize(IOEnv.VERIF_TRACECFG)
Known == Cfg.known

VARIABLES l, viol, info, phase, exp, args, lastTx, seqN, ivs, sessOK, lastRaw, prevM, mcall
vars == <<l, viol, info, phase, exp, args, lastTx, seqN, ivs, sessOK, lastRaw, prevM, mcall>>
NoCall == [kind |-> "none", name |-> "", err |-> FALSE, ntx |-> 0, codes |-> <<>>]
DialCall == [NoCall EXCEPT !.kind = "dial"]
NoM == [nometrics |-> 0]
\* phase: "idle" | "open" (inside NewV2Session) | "cmd" (inside an in-session command)
NoRec == [none |-> TRUE]
Init == /\ l = 1 /\ viol = {} /\ info = NoRec /\ phase = "idle" /\ exp = NoRec /\ args = NoRec
        /\ lastTx = [ptype |-> -1, raw |-> <<>>] /\ seqN = 0 /\ ivs = {} /\ sessOK = FALSE /\ lastRaw = <<>>
        /\ prevM = NoM /\ mcall = NoCall

Ev == Trace[l]
Has(r, f) == f \in DOMAIN r

Check(prop, pred_, ok) == IF ok THEN {} ELSE
   {[prop |-> prop, pred |-> pred_, ctx |-> [family |-> IF Has(info, "family") THEN info.family ELSE "?",
                                              mut |-> IF Has(info, "mut") THEN info.mut ELSE "?"]]}

\* ------------------------------------------------------- set-up payload parsers
AlgPl(kind, alg) == <<kind, 0, 0, 8, alg, 0, 0, 0>>
\* 13.17 Open Session Request: tag, requested privilege, reserved(2), console SID(4), three 8-byte algorithm payloads
OsrOk(p, a, x) == /\ Len(p) = 32 /\ p[2] = x.priv /\ p[3] = 0 /\ p[4] = 0
                  /\ Sub(p, 8, 16) = AlgPl(0, x.authNum) /\ Sub(p, 16, 24) = AlgPl(1, x.integNum) /\ Sub(p, 24, 32) = AlgPl(2, x.confNum)
\* 13.20 RAKP 1: tag, reserved(3), BMC SID(4), console random(16), role, reserved(2), name length, name
Rakp1Ok(p, a, x, honestSid) ==
  /\ Len(p) = 28 + Len(x.uname) /\ Sub(p, 1, 4) = <<0, 0, 0>>
  /\ (honestSid => Sub(p, 4, 8) = x.bmcSid)
  /\ p[25] = x.priv + (IF x.lookup THEN 0 ELSE 16)
  /\ p[26] = 0 /\ p[27] = 0 /\ p[28] = Len(x.uname) /\ Sub(p, 28, Len(p)) = x.uname
\* 13.22 RAKP 3: tag, status OK, reserved(2), BMC SID(4), AuthCode
Rakp3Ok(p, x, honestSid, digestLen) ==
  /\ Len(p) = 8 + digestLen /\ p[2] = 0 /\ p[3] = 0 /\ p[4] = 0 /\ (honestSid => Sub(p, 4, 8) = x.bmcSid)
DigestOf(authNum) == CASE authNum = 1 -> 20 [] authNum = 2 -> 16 [] authNum = 3 -> 32 [] OTHER -> 0

HonestSid == ~Has(info, "honestSid") \/ info.honestSid

OpenTxViol(e) ==
  LET w == ParseWrapper(e.raw, 0)
      p == w.payload
  IN Check("C09", "sessionless-null-session",
           w.ok /\ w.sid = <<0, 0, 0, 0>> /\ w.seq = <<0, 0, 0, 0>> /\ w.auth = 0 /\ w.enc = 0)
     \cup (IF ~w.ok THEN Check("C06", "setup-payload-wrapper", FALSE)
           \* (payload type 0 = Get Channel Cipher Suites during discovery, before the Open Session Request)
           ELSE Check("C06", "setup-payload-type-and-order", w.ptype \in {0, 16, 18, 20} /\ w.ptype >= lastTx.ptype)
                \cup (IF w.ptype = 16 THEN Check("C06", "open-session-request-fields", OsrOk(p, args, exp))
                                           \cup Check("C12", "proposes-expected-suite",
                                                      Len(p) = 32 /\ <<p[13], p[21], p[29]>> = <<exp.authNum, exp.integNum, exp.confNum>>)
                      ELSE IF w.ptype = 18 THEN Check("C06", "rakp1-fields", Rakp1Ok(p, args, exp, HonestSid))
                      ELSE IF w.ptype = 20 THEN Check("C06", "rakp3-fields", Rakp3Ok(p, exp, HonestSid, DigestOf(exp.authNum)))
                                                \cup Check("C01", "bmc-accepts-rakp3", Has(e, "rakp3auth") => e.rakp3auth)
                      ELSE {})
                \cup Check("C10", "payload-retransmission-identical", (w.ptype # 0 /\ w.ptype = lastTx.ptype) => e.raw = lastTx.raw))

CmdTxViol(e) ==
  LET w  == ParseWrapper(e.raw, info.integLen)
      p  == IF Has(e, "plain") /\ Len(e.plain) > 0 THEN StripConfPad(e.plain) ELSE Reject("noplain")
      mm == IF p.ok THEN ParseReqMsg(p.msg) ELSE Reject("nopad")
  IN Check("C09", "seq-consecutive", w.ok /\ w.seq = LE32s(seqN + 1))
     \cup Check("C03", "addressed-to-bmc-session", w.ok /\ w.sid = info.bmcSid)
     \cup Check("C03", "wrapper-flags-integrity-pad-authcode", w.ok /\ w.enc = 1 /\ w.auth = 1 /\ w.ptype = 0 /\ Has(e, "authOK") /\ e.authOK)
     \cup Check("C03", "confidentiality-iv-ciphertext-pad", w.ok /\ p.ok /\ w.plen = 16 + Len(e.plain) /\ p.n = ConfPadLen(Len(p.msg)))
     \cup Check("C03", "inner-message-is-called-command",
                mm.ok /\ mm.rsAddr = 32 /\ mm.rsLun = 0 /\ mm.netfn = exp.netfn /\ mm.cmd = exp.cmd /\ mm.data = exp.body)
     \cup Check("C03", "iv-fresh", Len(e.raw) >= 32 /\ Sub(e.raw, 16, 32) \notin ivs)
     \cup Check("C01", "command-passes-bmc-integrity-and-decryption",
                w.ok /\ Has(e, "authOK") /\ e.authOK /\ p.ok /\ mm.ok /\ mm.netfn = exp.netfn /\ mm.cmd = exp.cmd /\ mm.data = exp.body)

OpenRetViol(e) ==
  LET x == e.exp
      o == x.outcome
      v == e.value
      crashed == Has(e, "panic") \/ Has(e, "hang")
  IN Check("C05", "no-panic-no-hang", ~crashed)
     \* a crash is also a failure of the property the scenario belongs to
     \cup (IF ~crashed THEN {}
           ELSE IF o = "session" THEN Check("C01", "honest-handshake-succeeds", FALSE)
           ELSE IF o \in {"error", "ErrIncorrectPassword"} THEN Check("C02", "error-not-crash", FALSE)
           ELSE IF o = "anyerror" THEN Check("C12", "error-never-panic", FALSE)
           ELSE IF o = "userTooLong" THEN Check("C06", "username-longer-than-16-bytes-rejected-not-truncated", FALSE)
           ELSE IF o = "errorOrSession" THEN Check("C01", "none-suite-refused-or-sound", FALSE) \cup Check("C12", "error-never-panic", FALSE)
           ELSE {})
     \cup (IF crashed THEN {}
           ELSE IF o = "session"
                THEN Check("C01", "honest-handshake-succeeds", ~e.err)
                     \cup (IF Has(info, "retryLeg") THEN Check("C10", "handshake-payload-retried-until-answered", ~e.err) ELSE {})
                     \cup (IF e.err THEN {} ELSE
                           Check("C12", "session-confirms-exactly-the-proposal",
                                 /\ v.AuthenticationAlgorithm = x.authNum /\ v.IntegrityAlgorithm = x.integNum
                                 /\ v.ConfidentialityAlgorithm = x.confNum /\ v.RemoteID = x.bmcSid))
           ELSE IF o = "ErrIncorrectPassword"
                THEN Check("C02", "no-session-without-authentic-rakp2", e.err)
                     \cup Check("C02", "wrong-rakp2-gives-incorrect-password", e.err => e.errClass = "ErrIncorrectPassword")
           ELSE IF o = "error" THEN Check("C02", "no-session-from-mutated-transcript", e.err)
                \* a reply cut short is not a valid response: an establishment that reports success on it has not had one (C13)
                \cup (IF Has(info, "mut") /\ info.mut \in {"osr-short", "r2-short", "r4-short", "osr-trunc", "r2-trunc", "r4-trunc"}
                      THEN Check("C13", "success-only-after-a-valid-response", e.err) ELSE {})
           ELSE IF o = "anyerror" THEN Check("C12", "no-session-unless-response-confirms-proposal", e.err)
           ELSE IF o = "userTooLong" THEN Check("C06", "username-longer-than-16-bytes-rejected-not-truncated", e.err)
           ELSE {})

CmdRetViol(e) ==
  Check("C05", "no-panic-no-hang", ~Has(e, "panic") /\ ~Has(e, "hang"))
  \* the BMC answered the (first) transmission with a valid final response: that ends the command, with that response
  \* (C10), however many commands went before on the session (C17)
  \cup Check("C10", "a-valid-final-response-ends-the-command", Has(e, "err") /\ ~e.err /\ e.code = e.exp.code)
  \cup (IF seqN > 1 THEN Check("C17", "result-of-a-later-call-independent-of-what-preceded-it",
                               Has(e, "err") /\ ~e.err /\ e.code = e.exp.code /\ Has(e, "value") /\ e.value.data = e.exp.data) ELSE {})
  \cup (IF Has(e, "panic") \/ Has(e, "hang") \/ ~Has(e, "err") THEN Check("C01", "response-returned-to-caller", FALSE)
        ELSE Check("C01", "response-returned-to-caller",
                   ~e.err /\ e.code = e.exp.code /\ Has(e, "value") /\ e.value.data = e.exp.data))

SessionViol(e) ==
  IF ~Has(exp, "outcome") THEN {}
  ELSE IF exp.outcome = "session" THEN Check("C01", "keys-agree", e.have /\ e.sikOK /\ e.k1OK /\ e.k2OK)
  ELSE IF exp.outcome \in {"error", "ErrIncorrectPassword"} THEN Check("C02", "no-session-object", ~e.have)
  ELSE IF exp.outcome = "anyerror" THEN Check("C12", "no-session-object", ~e.have)
  ELSE IF exp.outcome = "userTooLong" THEN Check("C06", "username-longer-than-16-bytes-rejected-not-truncated", ~e.have)
  ELSE IF exp.outcome = "errorOrSession" THEN Check("C01", "none-suite-refused-or-sound", ~e.have \/ (e.sikOK /\ e.k1OK /\ e.k2OK))
  ELSE {}

NewViol == LET e == Ev IN
  IF e.ev = "tx" THEN (IF phase = "open" THEN OpenTxViol(e) ELSE IF phase = "cmd" THEN CmdTxViol(e) ELSE {})
  ELSE IF e.ev = "ret" THEN (IF e.api \in {"NewV2Session", "NewSession"} THEN OpenRetViol(e)
                             ELSE IF e.api = "Raw" /\ Has(e, "exp") /\ e.exp.outcome = "value" THEN CmdRetViol(e)
                             ELSE Check("C05", "no-panic-no-hang", ~Has(e, "panic") /\ ~Has(e, "hang")))
  ELSE IF e.ev = "session" THEN SessionViol(e)
  \* the script ran on a connection with a past (GenPast.tla) and the past itself crashed
  ELSE IF e.ev = "pastBroke" THEN Check("C17", "works-whatever-the-connection-did-before", FALSE)
                                  \cup Check("C05", "no-panic-no-hang", ~(Has(e, "panic") /\ e.panic # "nil"))
  ELSE IF e.ev \in {"harnessError", "prefixFailed"} THEN Check("HARNESS", e.ev, FALSE)
  ELSE IF e.ev = "metrics" /\ prevM # NoM /\ mcall.kind # "none"
       THEN LET bad == BadKeys(prevM, e.m, mcall) IN
            IF bad = {} THEN {} ELSE {[prop |-> "C18", pred |-> "counters-change-by-exactly-what-happened",
                                       ctx |-> [keys |-> bad, kind |-> mcall.kind, err |-> mcall.err]]}
  ELSE {}

\* ------------------------------------------------------------ observer steps
MKind(api) == CASE api = "NewV2Session" -> "open" [] api = "NewSession" -> "open" [] api = "Close" -> "close"
                [] api \in {"ConnClose", "ExtraClose"} -> "connclose" [] api = "DialV2" -> "dial" [] OTHER -> "command"
MName(api) == IF api = "Close" THEN "Close Session" ELSE "Raw"
Step ==
  LET e == Ev IN
  CASE e.ev = "reset" -> /\ info' = (IF Has(e, "info") THEN e.info ELSE NoRec) /\ phase' = "idle" /\ exp' = NoRec /\ args' = NoRec
                         /\ lastTx' = [ptype |-> -1, raw |-> <<>>] /\ seqN' = 0 /\ ivs' = {} /\ sessOK' = FALSE /\ lastRaw' = <<>>
                         /\ prevM' = NoM /\ mcall' = NoCall
    [] e.ev = "call" -> /\ phase' = (IF e.api \in {"NewV2Session", "NewSession"} THEN "open" ELSE IF e.api \in {"ConnClose", "DialV2", "ExtraClose"} THEN "idle" ELSE "cmd")
                        /\ exp' = (IF Has(e, "exp") THEN e.exp ELSE NoRec) /\ args' = (IF Has(e, "args") THEN e.args ELSE NoRec)
                        /\ lastTx' = [ptype |-> -1, raw |-> <<>>]
                        /\ mcall' = [kind |-> MKind(e.api), name |-> MName(e.api), err |-> FALSE, ntx |-> 0, codes |-> <<>>]
                        /\ UNCHANGED <<info, seqN, ivs, sessOK, lastRaw, prevM>>
    [] e.ev = "tx" -> /\ lastTx' = [ptype |-> (IF Len(e.raw) >= 6 THEN e.raw[6] % 64 ELSE -1), raw |-> e.raw]
                      /\ seqN' = (IF phase = "cmd" THEN seqN + 1 ELSE seqN)
                      /\ ivs' = (IF phase = "cmd" /\ Len(e.raw) >= 32 THEN ivs \cup {Sub(e.raw, 16, 32)} ELSE ivs)
                      /\ mcall' = [mcall EXCEPT !.ntx = @ + 1]
                      /\ UNCHANGED <<info, phase, exp, args, sessOK, lastRaw, prevM>>
    [] e.ev = "rx" -> /\ mcall' = (IF Has(e, "attrs") /\ Has(e.attrs, "valid") /\ e.attrs.valid /\ mcall.kind \in {"command", "close"}
                                   THEN [mcall EXCEPT !.codes = Append(@, e.attrs.code)] ELSE mcall)
                      /\ UNCHANGED <<info, phase, exp, args, lastTx, seqN, ivs, sessOK, lastRaw, prevM>>
    [] e.ev = "ret" -> /\ phase' = "idle"
                       \* failures count SendCommand errors; Close() also turns a non-normal completion code into an
                       \* error (ValidateResponse), which is not a command failure (v2sessionless.go: SendCommand comment)
                       /\ mcall' = (IF Has(e, "noTarget") THEN NoCall           \* nothing was called (e.g. no connection to close after a refused dial)
                                    ELSE IF ~Has(e, "err") THEN mcall
                                    ELSE IF mcall.kind = "dial" THEN [mcall EXCEPT !.kind = IF e.err THEN "dialfail" ELSE "dial"]
                                    ELSE IF mcall.kind = "close" /\ mcall.codes # <<>> /\ mcall.codes[Len(mcall.codes)] \notin {192, 195}
                                         THEN [mcall EXCEPT !.err = FALSE]
                                         ELSE [mcall EXCEPT !.err = e.err])
                       \* a new session numbers its packets from 1 again
                       /\ seqN' = (IF e.api \in {"NewV2Session", "NewSession"} /\ Has(e, "err") /\ ~e.err THEN 0 ELSE seqN)
                       /\ ivs' = (IF e.api \in {"NewV2Session", "NewSession"} /\ Has(e, "err") /\ ~e.err THEN {} ELSE ivs)
                       /\ UNCHANGED <<info, exp, args, lastTx, sessOK, lastRaw, prevM>>
    [] e.ev = "metrics" -> /\ prevM' = e.m /\ mcall' = (IF e.at = "start" THEN DialCall ELSE NoCall)
                           /\ UNCHANGED <<info, phase, exp, args, lastTx, seqN, ivs, sessOK, lastRaw>>
    [] OTHER -> UNCHANGED <<info, phase, exp, args, lastTx, seqN, ivs, sessOK, lastRaw, prevM, mcall>>

IsKnown(v) == \E i \in 1..Len(Known) : LET k == Known[i] IN k.prop = v.prop /\ k.pred = v.pred
Next == /\ l <= Len(Trace)
        /\ LET nv == NewViol \ viol IN
           /\ viol' = viol \cup nv
           /\ (nv # {}) => PrintT(<<"VIOL", ToJson([at |-> l, script |-> Ev.script, sigs |-> nv])>>)
           /\ (\E v \in nv : ~IsKnown(v)) => TLCSet(2, TRUE)
        /\ TLCSet(1, l + 1)
        /\ l' = l + 1
        /\ Step
Spec == Init /\ [][Next]_vars

ASSUME TLCSet(1, 1) /\ TLCSet(2, FALSE)
Post == /\ PrintT(<<"POST", ToJson([consumed |-> TLCGet(1) - 1, events |-> Len(Trace), newViolation |-> TLCGet(2)])>>)
        /\ TLCGet(1) = Len(Trace) + 1 /\ TLCGet(2) = FALSE
=============================================================================
