SPECIFICATION Spec
CONSTANTS Seed = @SEED@  Family = "@FAMILY@"  Tier = "@TIER@"
