----------------------------- MODULE DcmiPaging -----------------------------
(* DCMI Get DCMI Sensor Info enumeration (pkg/dcmi/sensor_info.go:
   GetSensorInfo, getSensorMap, getEntityInstances; DCMI v1.5 6.5.2).

   The BMC holds, per entity ID, the list of record IDs of its instances and
   answers a request (entity, instance start s) with the total number of
   instances and at most eight record IDs starting at instance s - how many is
   the BMC's choice for every response (any of PageSizes), not a constant.  The
   console pages by instance start, entity by entity, first with the IPMI
   entity IDs and - exactly when those yield an error or no record IDs at all -
   with the DCMI-specific ones.  Properties C16 (b). *)
EXTENDS Integers, Sequences, FiniteSets, TLC

CONSTANTS MaxCount, PageSizes,
          G_Advance,     \* the next request starts after the instances received so far
          G_Fallback,    \* fall back on the DCMI entity IDs when the IPMI ones gave nothing
          G_StopOnCount  \* an entity is finished when all its instances are in (or a page is empty), not when a page is
                         \* shorter than the one before

Entities == <<"inlet", "cpu", "board">>
Families == {"ipmi", "dcmi"}
\* record IDs are made distinguishable: family, entity index, instance
Rid(f, e, i) == (IF f = "ipmi" THEN 1000 ELSE 2000) + 100 * e + i
ListOf(f, e, n) == [i \in 1..n |-> Rid(f, e, i)]

VARIABLES counts,     \* [family -> [entity index -> number of instances]]
          ipmiErr,    \* the BMC rejects IPMI entity IDs (DCMI v1.0/1.1)
          page, fam, ent, acc, total, out, pc, nreq,
          prev        \* number of record IDs in the previous page of the current entity (0: none yet)
vars == <<counts, ipmiErr, page, fam, ent, acc, total, out, pc, nreq, prev>>

Init == /\ counts \in [Families -> [1..3 -> 0..MaxCount]] /\ ipmiErr \in BOOLEAN /\ page = 0   \* (kept for the trace format; the page size is chosen per response)
        /\ fam = "ipmi" /\ ent = 1 /\ acc = <<>> /\ total = 1 /\ out = [f \in Families |-> [e \in 1..3 |-> <<>>]] /\ pc = "req" /\ nreq = 0 /\ prev = 0

Page(f, e, s, p) == LET n == counts[f][e]  l == ListOf(f, e, n) IN SubSeq(l, s, IF s + p - 1 < n THEN s + p - 1 ELSE n)
FinishFamily == IF fam = "ipmi" /\ G_Fallback /\ (\A e \in 1..3 : Len(out'[fam][e]) = 0) THEN /\ fam' = "dcmi" /\ ent' = 1 /\ pc' = "req"
                ELSE /\ pc' = "done" /\ UNCHANGED <<fam, ent>>
Request ==
  /\ pc = "req" /\ nreq' = nreq + 1
  /\ IF fam = "ipmi" /\ ipmiErr
     THEN \* an error from the first family sends the console to the second (if it falls back at all)
          /\ out' = out /\ acc' = <<>> /\ total' = 1 /\ prev' = 0
          /\ IF G_Fallback THEN fam' = "dcmi" /\ ent' = 1 /\ pc' = "req" ELSE pc' = "error" /\ UNCHANGED <<fam, ent>>
     ELSE \E p \in PageSizes :       \* the BMC's choice for this response
          LET s == IF G_Advance THEN Len(acc) + 1 ELSE 1
              got == Page(fam, ent, s, p)
              acc2 == acc \o got
              tot == counts[fam][ent]
          IN IF Len(acc2) >= tot \/ got = <<>> \/ Len(acc2) = 255 \/ (~G_StopOnCount /\ Len(got) < prev)
             THEN /\ out' = [out EXCEPT ![fam][ent] = acc2] /\ acc' = <<>> /\ total' = 1 /\ prev' = 0
                  /\ IF ent < 3 THEN ent' = ent + 1 /\ pc' = "req" /\ fam' = fam ELSE FinishFamily
             ELSE /\ acc' = acc2 /\ total' = tot /\ prev' = Len(got) /\ UNCHANGED <<out, fam, ent, pc>>
  /\ UNCHANGED <<counts, ipmiErr, page>>
Next == Request
Spec == Init /\ [][Next]_vars /\ WF_vars(Next)

Done == pc = "done"
Used == IF ipmiErr \/ (\A e \in 1..3 : counts["ipmi"][e] = 0) THEN "dcmi" ELSE "ipmi"
C16_AllRecordIDsInOrderNoDup == Done => \A e \in 1..3 : out[Used][e] = ListOf(Used, e, counts[Used][e])
C16_FallbackExactlyWhenEmptyOrError == Done => (fam = "dcmi") = (ipmiErr \/ \A e \in 1..3 : counts["ipmi"][e] = 0)
C16_Bounded == nreq <= 2 * 3 * (MaxCount + 1) + 1
C16_Terminates == <>(pc \in {"done", "error"})
=============================================================================
