#!/usr/bin/env python3
"""seedverify.py <mutant dir> <name>  - confirm a seeded change in a scratch worktree of /repo's HEAD:
(a) it applies, builds (with and without the verif tag) and passes the existing suite,
(b) its demonstration fails with it, (c) passes without it. On success the change is kept
as /verif/seeded/<name>/ (patch.diff, demo, meta.json)."""
import json, os, re, shutil, subprocess, sys
ENV = dict(os.environ, GOFLAGS="-mod=mod", GOPROXY="off", GOSUMDB="off", GOTOOLCHAIN="local")
def sh(cmd, cwd, timeout=1200):
    p = subprocess.run(cmd, cwd=cwd, shell=True, env=ENV, stdout=subprocess.PIPE, stderr=subprocess.STDOUT, text=True, timeout=timeout)
    return p.returncode, p.stdout
def main():
    src, name = sys.argv[1], sys.argv[2]
    wt = "/tmp/sv/" + name
    sh("git -C /repo worktree remove --force %s" % wt, "/")
    shutil.rmtree(wt, ignore_errors=True)
    os.makedirs("/tmp/sv", exist_ok=True)
    rc, out = sh("git -C /repo worktree add --detach %s HEAD -q" % wt, "/")
    assert rc == 0, out
    res = {"name": name, "base": sh("git rev-parse --short HEAD", wt)[1].strip()}
    try:
        meta = json.load(open(os.path.join(src, "meta.json")))
        demos = [f for f in os.listdir(src) if f.endswith(".go")]
        assert demos, "no demo"
        demo = demos[0]
        txt = open(os.path.join(src, demo)).read()
        pkg = re.search(r"^package (\w+)", txt, re.M).group(1)
        mtxt = json.dumps(meta)
        if pkg.startswith("ipmi"): d = "pkg/ipmi"
        elif pkg.startswith("dcmi"): d = "pkg/dcmi"
        elif pkg in ("bcd", "bcd_test"): d = "internal/pkg/bcd"
        elif pkg in ("complement", "complement_test"): d = "internal/pkg/complement"
        elif pkg in ("transport", "transport_test"): d = "internal/pkg/transport"
        elif pkg == "main": d = "cmd/seeddemo"
        elif pkg in ("bmc", "bmc_test"): d = "."
        else: d = "seeddemo_" + re.sub(r"\W", "", pkg)     # a self-contained external test package of its own

        tests = sorted(set(re.findall(r"^func (Test\w+)\(", txt, re.M)))
        runpat = "|".join(tests) if tests else "."
        rc, out = sh("git apply %s" % os.path.join(src, "patch.diff"), wt)
        if rc != 0:
            rc, out = sh("git apply --3way %s" % os.path.join(src, "patch.diff"), wt)
        res["applies"] = rc == 0
        if rc != 0:
            res["apply_output"] = out[-1500:]
            raise SystemExit
        sh("git diff > /tmp/sv/%s.rebased.diff" % name, wt)
        rc1, o1 = sh("go build ./... && go build -tags verif ./...", wt)
        rc2, o2 = sh("go test -vet=off -count=1 ./...", wt)
        res["builds"], res["suite_passes_with_change"] = rc1 == 0, rc2 == 0
        if rc1 or rc2:
            res["out"] = (o1 + o2)[-1500:]
        os.makedirs(os.path.join(wt, d), exist_ok=True)
        dst = os.path.join(wt, d, "zz_seed_demo_test.go" if pkg != "main" else "main.go")
        shutil.copy(os.path.join(src, demo), dst)
        cmd = ("go test -tags verif -vet=off -count=1 -run '^(%s)$' ./%s" % (runpat, d)) if pkg != "main" else "go run -tags verif ./%s" % d
        rc3, o3 = sh(cmd, wt)
        res["demo_fails_with_change"] = rc3 != 0
        res["demo_cmd"] = cmd
        res["demo_fail_excerpt"] = "\n".join([l for l in o3.splitlines() if "FAIL" in l or "---" in l][:8])
        sh("git checkout -- . ", wt)
        rc4, o4 = sh(cmd, wt)
        res["demo_passes_without_change"] = rc4 == 0
        if rc4: res["out_without"] = o4[-1500:]
        ok = res["applies"] and res["builds"] and res["suite_passes_with_change"] and res["demo_fails_with_change"] and res["demo_passes_without_change"]
        res["confirmed"] = ok
        if ok:
            keep = os.path.join("/verif/seeded", name)
            shutil.rmtree(keep, ignore_errors=True)
            os.makedirs(keep)
            shutil.copy("/tmp/sv/%s.rebased.diff" % name, os.path.join(keep, "patch.diff"))
            shutil.copy(os.path.join(src, demo), os.path.join(keep, demo))
            meta_out = {"property": meta.get("property"), "summary": meta.get("summary"), "needs_to_manifest": meta.get("needs_to_manifest"),
                        "files_touched": meta.get("files_touched"), "demo_package_dir": d, "demo_cmd": cmd,
                        "confirmed_at_repo_commit": res["base"],
                        "what_i_ran": ["git apply patch.diff; go build ./... && go build -tags verif ./... ; go test -vet=off -count=1 ./...  -> pass",
                                       cmd + "  -> FAIL with the change", "git checkout -- . ; " + cmd + "  -> PASS without it"],
                        "demo_fail_excerpt": res["demo_fail_excerpt"]}
            json.dump(meta_out, open(os.path.join(keep, "meta.json"), "w"), indent=1)
    finally:
        sh("git -C /repo worktree remove --force %s" % wt, "/")
        shutil.rmtree(wt, ignore_errors=True)
        try: os.unlink("/tmp/sv/%s.rebased.diff" % name)
        except OSError: pass
    print(json.dumps(res))
if __name__ == "__main__":
    main()
