------------------------------- MODULE GenApi -------------------------------
(* Every command the library offers, driven through Connection.SendCommand
   outside and inside a session: the request on the wire must be the
   specification's encoding of the caller's fields under the command's NetFn,
   command number, group-extension byte and responder LUN (C06, and C03 inside a
   session), and the response body built from the response table must come
   back as the specification's record (C07: composition RMCP + wrapper +
   message + body). *)
EXTENDS DcmiCaps, Crypto, Json, FiniteSets, TLC

CONSTANTS Seed, Family, Tier
S == [authAlg |-> "sha256", integAlg |-> "sha256", authNum |-> 3, integNum |-> 4, confNum |-> 1, icvLen |-> 16, integLen |-> 16,
      uname |-> <<97>>, pw |-> <<98, 99>>, kg |-> <<>>, priv |-> 4, lookup |-> TRUE, bmcSid |-> <<7, 7, 7, 5>>,
      rc |-> [i \in 1..16 |-> (i * 5) % 256], guid |-> [i \in 1..16 |-> (90 + i) % 256]]

\* c = [name (harness registry), netfn, num, group (<<>> or <<DCh>>), lun, req (table name or ""), rsp (table name or ""), args]
NoT == <<>>
Cmds(k) == <<
  [name |-> "GetDeviceID", netfn |-> 6, num |-> 1, group |-> <<>>, reqT |-> NoT, rspN |-> "GetDeviceIDRsp"],
  [name |-> "GetChassisStatus", netfn |-> 0, num |-> 1, group |-> <<>>, reqT |-> NoT, rspN |-> "GetChassisStatusRsp4"],
  [name |-> "GetChassisStatus", netfn |-> 0, num |-> 1, group |-> <<>>, reqT |-> NoT, rspN |-> "GetChassisStatusRsp3"],
  [name |-> "ChassisControl", netfn |-> 0, num |-> 2, group |-> <<>>, reqT |-> ChassisControlReq, rspN |-> ""],
  [name |-> "GetSystemGUID", netfn |-> 6, num |-> 55, group |-> <<>>, reqT |-> NoT, rspN |-> "GetSystemGUIDRsp"],
  [name |-> "GetChannelAuthenticationCapabilities", netfn |-> 6, num |-> 56, group |-> <<>>, reqT |-> GetChannelAuthenticationCapabilitiesReq, rspN |-> "GetChannelAuthenticationCapabilitiesRsp"],
  [name |-> "SetSessionPrivilegeLevel", netfn |-> 6, num |-> 59, group |-> <<>>, reqT |-> SetSessionPrivilegeLevelReq, rspN |-> "SetSessionPrivilegeLevelRsp"],
  [name |-> "GetSessionInfo", netfn |-> 6, num |-> 61, group |-> <<>>, reqT |-> NoT, rspN |-> "GetSessionInfoRsp18"],
  [name |-> "CloseSession", netfn |-> 6, num |-> 60, group |-> <<>>, reqT |-> CloseSessionReq, rspN |-> ""],
  [name |-> "GetSDRRepositoryInfo", netfn |-> 10, num |-> 32, group |-> <<>>, reqT |-> NoT, rspN |-> "GetSDRRepositoryInfoRsp"],
  [name |-> "ReserveSDRRepository", netfn |-> 10, num |-> 34, group |-> <<>>, reqT |-> NoT, rspN |-> "ReserveSDRRepositoryRsp"],
  [name |-> "GetSDR", netfn |-> 10, num |-> 35, group |-> <<>>, reqT |-> GetSDRReq, rspN |-> "GetSDRRsp"],
  [name |-> "GetSensorReading", netfn |-> 4, num |-> 45, group |-> <<>>, reqT |-> GetSensorReadingReq, rspN |-> "GetSensorReadingRsp"],
  [name |-> "GetChannelCipherSuites", netfn |-> 6, num |-> 84, group |-> <<>>, reqT |-> GetChannelCipherSuitesReq, rspN |-> ""],
  [name |-> "GetDCMISensorInfo", netfn |-> 44, num |-> 7, group |-> <<220>>, reqT |-> GetDCMISensorInfoReq, rspN |-> ""],
  [name |-> "GetPowerReading", netfn |-> 44, num |-> 2, group |-> <<220>>, reqT |-> NoT, rspN |-> "GetPowerReadingRsp"],
  [name |-> "DCMICapsSupportedCapabilities", netfn |-> 44, num |-> 1, group |-> <<220>>, reqT |-> NoT, rspN |-> ""],
  [name |-> "DCMICapsMandatoryPlatformAttrs", netfn |-> 44, num |-> 1, group |-> <<220>>, reqT |-> NoT, rspN |-> ""],
  [name |-> "DCMICapsOptionalPlatformAttrs", netfn |-> 44, num |-> 1, group |-> <<220>>, reqT |-> NoT, rspN |-> ""],
  [name |-> "DCMICapsManageabilityAccessAttrs", netfn |-> 44, num |-> 1, group |-> <<220>>, reqT |-> NoT, rspN |-> ""],
  [name |-> "DCMICapsEnhancedSystemPowerStatisticsAttrs", netfn |-> 44, num |-> 1, group |-> <<220>>, reqT |-> NoT, rspN |-> ""] >>
\* DCMI 6.1 Get DCMI Capabilities Info: request = parameter selector 1..5
CapsParam(n) == CASE n = "DCMICapsSupportedCapabilities" -> 1 [] n = "DCMICapsMandatoryPlatformAttrs" -> 2 [] n = "DCMICapsOptionalPlatformAttrs" -> 3
                  [] n = "DCMICapsManageabilityAccessAttrs" -> 4 [] n = "DCMICapsEnhancedSystemPowerStatisticsAttrs" -> 5 [] OTHER -> 0
ReqOk(c, r) == /\ (c.name = "SetSessionPrivilegeLevel" => r["PrivilegeLevel"] # 1)
               /\ (c.name = "CloseSession" => r["ID"] # <<0, 0, 0, 0>>)
ReqRecs(c, k) == IF c.reqT = NoT THEN {<<>>} ELSE {r \in {Base(c.reqT, k), Base(c.reqT, k + 1), Base(c.reqT, k + 2)} : ReqOk(c, r)}
\* DCMI 6.5.2: the instance start offset only applies to "all instances"; with a specific instance it is sent as 0
ReqBytes(c, r) == IF c.name = "GetPowerReading" THEN <<1, 0, 0>> ELSE IF c.name = "GetSessionInfo" THEN <<0>> ELSE IF CapsParam(c.name) > 0 THEN <<CapsParam(c.name)>> ELSE IF c.reqT = NoT THEN <<>>
                  ELSE IF c.name = "GetDCMISensorInfo" /\ r["Instance"] # 0 THEN Encode(c.reqT, [r EXCEPT !["InstanceStart"] = 0]) ELSE Encode(c.reqT, r)
\* responses without a fixed table: [bytes, value]
CapsName(c, k) == IF c.name = "DCMICapsMandatoryPlatformAttrs" THEN (IF k % 2 = 0 THEN "DCMICapsMandatoryPlatformAttrsRsp4" ELSE "DCMICapsMandatoryPlatformAttrsRsp5")
                  ELSE c.name \o "Rsp"
Periods(k) == [i \in 1..((k * 5) % 7) |-> (k * 29 + i * 53) % 256]
VarRsp(c, k) ==
  IF c.name = "DCMICapsEnhancedSystemPowerStatisticsAttrs"
  THEN [bytes |-> PowerStatsBytes(<<1, 5, 2>>, Periods(k)), value |-> PowerStatsExpected(<<1, 5, 2>>, Periods(k))]
  ELSE IF CapsParam(c.name) > 0
  THEN LET n == CapsName(c, k)  r == CapsBase(n, k, 1 + (k % 4)) IN [bytes |-> Encode(CapsTables[n], r), value |-> CapsExpected(n, r)]
  ELSE IF c.name = "GetChannelCipherSuites"
  THEN LET ch == [i \in 1..((k * 3) % 17) |-> (k + i * 7) % 256] IN [bytes |-> <<k % 16>> \o ch, value |-> [Channel |-> k % 16, CipherSuiteRecordsChunk |-> ch]]
  ELSE LET ids == [i \in 1..((k * 3) % 9) |-> (k * 1031 + i * 257) % 65536] IN     \* Get DCMI Sensor Info
       [bytes |-> <<(k * 7) % 256, Len(ids)>> \o Flatten([i \in 1..Len(ids) |-> LE16(ids[i])]), value |-> [Instances |-> (k * 7) % 256, RecordIDs |-> ids]]
HasVarRsp(c) == CapsParam(c.name) > 0 \/ c.name \in {"GetChannelCipherSuites", "GetDCMISensorInfo"}
RspRec(c, k) == IF c.rspN = "" THEN <<>> ELSE LET T == Tables[c.rspN]  b == Base(T, k) IN
                IF c.rspN = "GetPowerReadingRsp" THEN [b EXCEPT !["periodMs"] = <<232, 3, 0, 0>>] ELSE b
RspBytes(c, k) == IF HasVarRsp(c) THEN VarRsp(c, k).bytes
                  ELSE IF c.rspN = "" THEN <<>> ELSE Encode(Tables[c.rspN], RspRec(c, k))
Lun(c, k) == IF c.name = "GetSensorReading" THEN k % 4 ELSE 0

CallV(c, r, k, tg, vprop, keep) ==
  LET args0 == IF c.name = "GetPowerReading" THEN [Req |-> [Mode |-> 1, Period |-> [s |-> 0, ns |-> 0]]]
               ELSE IF c.reqT = NoT THEN <<>> ELSE [Req |-> r]
      args == IF c.name = "GetSensorReading" THEN args0 @@ [OwnerLUN |-> Lun(c, k)] ELSE args0
  IN [k |-> "call", api |-> "Cmd", cmd |-> c.name, label |-> c.name, target |-> tg, keep |-> keep]
     @@ (IF args = <<>> THEN <<>> ELSE [args |-> args])
     @@ [exp |-> [prop |-> "C06", rslun |-> Lun(c, k),
                  reqs |-> << [pt |-> 0, netfn |-> c.netfn, cmd |-> c.num, data |-> c.group \o ReqBytes(c, r)] >>]
                 @@ (IF HasVarRsp(c) THEN [outcome |-> "agrees", vprop |-> vprop, value |-> VarRsp(c, k).value]
                     ELSE IF c.rspN = "" THEN [outcome |-> "noerror"]
                     ELSE [outcome |-> "agrees", vprop |-> vprop, value |-> Expected(c.rspN, Tables[c.rspN], RspRec(c, k))])]
MsgT(echo, c, k) == MsgRspE(echo, c.netfn + 1, Lun(c, k), c.num, 0, c.group \o RspBytes(c, k))
\* every other reply carries an RMCP sequence number of the BMC's own (2Ah, 00h, FEh ...) instead of FFh: whatever the
\* library makes of it, its next request must again start 06 00 FF 07 (the RMCP header is outside the AuthCode)
Stamp(t, j) == IF j % 2 = 0 THEN SetByte(t, 2, (j * 21) % 255) ELSE t
ReactIn(c, k, j) == [React0 EXCEPT !.datagrams = << Dg(Stamp(SessPacket(S, LE32s(j), MsgT(EchoS, c, k), [i \in 1..16 |-> (i + j) % 256]), j), [kind |-> "rsp", valid |-> TRUE, code |-> 0]) >>]
ReactOut(c, k, j) == [React0 EXCEPT !.datagrams = << Dg(Stamp(NullWrapper(0, MsgT(EchoN, c, k)), j), [kind |-> "rsp", valid |-> TRUE, code |-> 0]) >>]

Rev(q) == [i \in 1..Len(q) |-> q[Len(q) + 1 - i]]
\* --- the convenience methods (bmc.SessionCommands / SessionlessCommands, pkg/dcmi commanders): same wire behaviour,
\* the result handed back as a value
DcmiMethod(n) == CASE n = "DCMICapsSupportedCapabilities" -> "GetDCMICapabilitiesInfoSupportedCapabilities"
                   [] n = "DCMICapsMandatoryPlatformAttrs" -> "GetDCMICapabilitiesInfoMandatoryPlatformAttrs"
                   [] n = "DCMICapsOptionalPlatformAttrs" -> "GetDCMICapabilitiesInfoOptionalPlatformAttrs"
                   [] n = "DCMICapsManageabilityAccessAttrs" -> "GetDCMICapabilitiesInfoManageabilityAccessAttrs"
                   [] n = "DCMICapsEnhancedSystemPowerStatisticsAttrs" -> "GetDCMICapabilitiesInfoEnhancedSystemPowerStatisticsAttrs"
                   [] OTHER -> n
\* [m (method name), on ("" or "dcmi"), margs, sess (needs a session)] or <<>> when there is no method for the command
Meth(c, r) ==
  CASE c.name \in {"GetDeviceID", "GetChassisStatus", "GetSDRRepositoryInfo", "ReserveSDRRepository"} -> [m |-> c.name, on |-> "", margs |-> <<>>, sess |-> TRUE]
    [] c.name = "GetSystemGUID" -> [m |-> c.name, on |-> "", margs |-> <<>>, sess |-> FALSE]
    [] c.name = "GetChannelAuthenticationCapabilities" -> [m |-> c.name, on |-> "", margs |-> <<r>>, sess |-> FALSE]
    [] c.name = "GetSessionInfo" -> [m |-> c.name, on |-> "", margs |-> << [Index |-> 0] >>, sess |-> TRUE]
    [] c.name = "ChassisControl" -> [m |-> c.name, on |-> "", margs |-> << r["ChassisControl"] >>, sess |-> TRUE]
    [] c.name = "SetSessionPrivilegeLevel" -> [m |-> c.name, on |-> "", margs |-> << r["PrivilegeLevel"] >>, sess |-> TRUE]
    [] c.name = "GetSensorReading" -> [m |-> c.name, on |-> "", margs |-> << r["Number"] >>, sess |-> TRUE]
    [] c.name = "GetPowerReading" -> [m |-> c.name, on |-> "dcmi", margs |-> << [Mode |-> 1, Period |-> [s |-> 0, ns |-> 0]] >>, sess |-> TRUE]
    [] c.name = "GetDCMISensorInfo" -> [m |-> c.name, on |-> "dcmi", margs |-> <<r>>, sess |-> TRUE]
    [] CapsParam(c.name) > 0 -> [m |-> DcmiMethod(c.name), on |-> "dcmi", margs |-> <<>>, sess |-> FALSE]
    [] OTHER -> <<>>
\* what the method hands back: the response record, or for three of them a plain value
MethValue(c, k) ==
  IF c.name = "GetSystemGUID" THEN [outcome |-> "equals", value |-> RspRec(c, k)["GUID"]]
  ELSE IF c.name = "SetSessionPrivilegeLevel" THEN [outcome |-> "equals", value |-> RspRec(c, k)["PrivilegeLevel"]]
  ELSE IF HasVarRsp(c) THEN [outcome |-> "agrees", value |-> VarRsp(c, k).value]
  ELSE IF c.rspN = "" THEN [outcome |-> "noerror"]
  ELSE [outcome |-> "agrees", value |-> Expected(c.rspN, Tables[c.rspN], RspRec(c, k))]
MethodV(c, r, k, tg, vprop) ==
  LET mt == Meth(c, r)
      lun == IF c.name = "GetSensorReading" THEN 0 ELSE Lun(c, k) IN
  [k |-> "call", api |-> "Method", method |-> mt.m, on |-> mt.on, margs |-> mt.margs, label |-> mt.m, target |-> tg,
   exp |-> [prop |-> "C06", vprop |-> vprop, rslun |-> lun,
            reqs |-> << [pt |-> 0, netfn |-> c.netfn, cmd |-> c.num, data |-> c.group \o ReqBytes(c, r)] >>] @@ MethValue(c, k)]
MethMsgT(echo, c, k) == MsgRspE(echo, c.netfn + 1, IF c.name = "GetSensorReading" THEN 0 ELSE Lun(c, k), c.num, 0, c.group \o RspBytes(c, k))
RECURSIVE MethodSteps(_, _, _, _, _)
MethodSteps(cs, k, tg, j, vprop) ==
  IF cs = <<>> THEN <<>> ELSE
  LET c == Head(cs)
      rs == ReqRecs(c, k + j)
      r == CHOOSE x \in rs : TRUE
      usable == rs # {} /\ Meth(c, r) # <<>> /\ (tg = "sess" \/ ~Meth(c, r).sess)
  IN (IF ~usable THEN <<>> ELSE
      << MethodV(c, r, k + j, tg, vprop),
         IF tg = "sess" THEN [React0 EXCEPT !.datagrams = << Dg(SessPacket(S, LE32s(j), MethMsgT(EchoS, c, k + j), [i \in 1..16 |-> (i + j) % 256]), [kind |-> "rsp", valid |-> TRUE, code |-> 0]) >>]
         ELSE [React0 EXCEPT !.datagrams = << Dg(NullWrapper(0, MethMsgT(EchoN, c, k + j)), [kind |-> "rsp", valid |-> TRUE, code |-> 0]) >>] >>)
     \o MethodSteps(Tail(cs), k, tg, IF usable THEN j + 1 ELSE j, vprop)
\* the current privilege level is read with level 0 in the request (22.18)
GetPriv(tg, j, lvl) ==
  << [k |-> "call", api |-> "Method", method |-> "GetSessionPrivilegeLevel", on |-> "", margs |-> <<>>, label |-> "GetSessionPrivilegeLevel", target |-> tg,
      exp |-> [prop |-> "C06", vprop |-> "C07", rslun |-> 0, outcome |-> "equals", value |-> lvl,
               reqs |-> << [pt |-> 0, netfn |-> 6, cmd |-> 59, data |-> <<0>>] >>]],
     [React0 EXCEPT !.datagrams = << Dg(SessPacket(S, LE32s(j), MsgRspE(EchoS, 7, 0, 59, 0, <<lvl>>), [i \in 1..16 |-> (i + j) % 256]), [kind |-> "rsp", valid |-> TRUE, code |-> 0]) >>] >>
Methods(id, k, tg, rev) ==
  LET cs == IF rev THEN Rev(Cmds(k)) ELSE Cmds(k)
      main == MethodSteps(cs, k, tg, 1, IF rev THEN "C17" ELSE "C07") IN
  [id |-> id, prefix |-> IF tg = "sess" THEN "hs" ELSE "",
   info |-> [family |-> "api-methods", insess |-> tg = "sess", integLen |-> S.integLen, bmcSid |-> S.bmcSid],
   steps |-> main \o (IF tg = "sess" THEN GetPriv(tg, (Len(main) \div 2) + 1, 2 + (k % 3)) ELSE <<>>)]
RECURSIVE StepsFor(_, _, _, _, _, _)
StepsFor(cs, k, tg, j, vprop, keep) ==
  IF cs = <<>> THEN <<>> ELSE
  LET c == Head(cs)
      rs == ReqRecs(c, k + j)
      r == CHOOSE x \in rs : TRUE
  IN (IF rs = {} THEN <<>> ELSE << CallV(c, r, k + j, tg, vprop, keep), IF tg = "sess" THEN ReactIn(c, k + j, j) ELSE ReactOut(c, k + j, j) >>)
     \o StepsFor(Tail(cs), k, tg, j + 1, vprop, keep)
\* one script per (seed offset, target): every command once, in table order and in reverse (results must not depend on what preceded)
\* every command twice in a row through one command value the caller keeps, with different response contents
Dup(q) == [i \in 1..(2 * Len(q)) |-> q[(i + 1) \div 2]]
\* a request the library refuses to encode (22.18: privilege level 1h cannot be set): an error, nothing transmitted -
\* and, inside a session, no sequence number used up (the datagrams that follow must continue the count: C09)
Refused(tg) == [k |-> "call", api |-> "Cmd", cmd |-> "SetSessionPrivilegeLevel", label |-> "refused", target |-> tg, keep |-> FALSE,
                args |-> [Req |-> [PrivilegeLevel |-> 1]],
                exp |-> [prop |-> "C06", outcome |-> "errclass", errclass |-> "other", reqs |-> <<>>]]
\* a command made with a context that has already expired: an error, nothing transmitted - and still a call that was
\* made and failed (C18)
ExpiredCall(tg) == [k |-> "call", api |-> "Cmd", cmd |-> "GetSystemGUID", label |-> "expired", target |-> tg, keep |-> FALSE,
                    ctx |-> [ms |-> 5000, expired |-> TRUE],
                    exp |-> [prop |-> "C13", outcome |-> "error", value |-> <<>>, reqs |-> <<>>]]
Script(id, k, tg, rev) ==
  LET main == StepsFor(IF rev THEN Rev(Cmds(k)) ELSE Cmds(k), k, tg, 1, IF rev THEN "C17" ELSE "C07", FALSE) IN
  [id |-> id, prefix |-> IF tg = "sess" THEN "hs" ELSE "",
   info |-> [family |-> "api", insess |-> tg = "sess", integLen |-> S.integLen, bmcSid |-> S.bmcSid],
   \* the same commands in reverse order: a result that differs only there depends on what preceded it (C17)
   steps |-> IF tg = "sess" THEN << Refused(tg) >> \o main \o << Refused(tg) >> \o GetPriv(tg, (Len(main) \div 2) + 1, 3)
             ELSE << Refused(tg) >> \o main \o << ExpiredCall(tg) >>]
Twice(id, k, tg, vprop) ==
  [id |-> id, prefix |-> IF tg = "sess" THEN "hs" ELSE "",
   info |-> [family |-> "api-twice", insess |-> tg = "sess", integLen |-> S.integLen, bmcSid |-> S.bmcSid],
   steps |-> StepsFor(Dup(Cmds(k)), k, tg, 1, vprop, TRUE)]
\* a session and the connection it was opened on used alternately: commands on the connection keep using the null session,
\* the session's sequence numbers continue across them, and no result depends on what the other path did before
RECURSIVE MixedSteps(_, _, _, _, _)
MixedSteps(cs, k, j, js, vprop) ==
  IF cs = <<>> THEN <<>> ELSE
  LET c == Head(cs)
      rs == ReqRecs(c, k + j)
      r == CHOOSE x \in rs : TRUE
      onConn == (j + k) % 2 = 0
      call == CallV(c, r, k + j, IF onConn THEN "conn" ELSE "sess", vprop, FALSE)
  IN (IF rs = {} THEN <<>>
      ELSE IF onConn THEN << [call EXCEPT !.exp = @ @@ [sessionless |-> TRUE]], ReactOut(c, k + j, j) >>
      ELSE << call, ReactIn(c, k + j, js) >>)
     \o MixedSteps(Tail(cs), k, j + 1, IF rs = {} \/ onConn THEN js ELSE js + 1, vprop)
\* the same command on the connection, in the session, and on the connection again (nothing else in between)
RECURSIVE SandwichSteps(_, _, _, _)
SandwichSteps(cs, k, j, js) ==
  IF cs = <<>> THEN <<>> ELSE
  LET c == Head(cs)
      rs == ReqRecs(c, k + j)
      r == CHOOSE x \in rs : TRUE
      onConn(jj) == [CallV(c, r, k + jj, "conn", "C17", FALSE) EXCEPT !.exp = @ @@ [sessionless |-> TRUE]]
  IN (IF rs = {} THEN <<>>
      ELSE << onConn(j), ReactOut(c, k + j, j), CallV(c, r, k + j + 1, "sess", "C17", FALSE), ReactIn(c, k + j + 1, js), onConn(j + 2), ReactOut(c, k + j + 2, j + 2) >>)
     \o SandwichSteps(Tail(cs), k, j + 3, IF rs = {} THEN js ELSE js + 1)
Sandwich(id, k) ==
  [id |-> id, prefix |-> "hs", info |-> [family |-> "api-sandwich", insess |-> TRUE, integLen |-> S.integLen, bmcSid |-> S.bmcSid],
   steps |-> SandwichSteps(Cmds(k), k, 1, 1)]
Mixed(id, k, rev) ==
  [id |-> id, prefix |-> "hs", info |-> [family |-> "api-mixed", insess |-> TRUE, integLen |-> S.integLen, bmcSid |-> S.bmcSid],
   steps |-> MixedSteps(IF rev THEN Rev(Cmds(k)) ELSE Cmds(k), k, 1, 1, IF rev THEN "C17" ELSE "C07")]
Scripts == { Sandwich("apis-" \o ToString(k), Seed * 100 + k) : k \in 1..(IF Tier = "thorough" THEN 12 ELSE 3) } \cup
           { Mixed("apix-" \o ToString(k) \o (IF rv THEN "r" ELSE "f"), Seed * 100 + k, rv) : k \in 1..(IF Tier = "thorough" THEN 24 ELSE 6), rv \in BOOLEAN }
           \cup
           { Script("api-" \o tg \o "-" \o ToString(k) \o (IF rv THEN "r" ELSE "f"), Seed * 100 + k, tg, rv)
             : k \in 1..(IF Tier = "thorough" THEN 40 ELSE 8), tg \in {"conn", "sess"}, rv \in BOOLEAN }
           \cup { Twice("api2-" \o tg \o "-" \o ToString(k) \o "-" \o vp, Seed * 100 + k, tg, vp)
                  : k \in 1..(IF Tier = "thorough" THEN 24 ELSE 6), tg \in {"conn", "sess"}, vp \in {"C07", "C17"} }
           \cup { Methods("apim-" \o tg \o "-" \o ToString(k) \o (IF rv THEN "r" ELSE "f"), Seed * 100 + k, tg, rv)
                  : k \in 1..(IF Tier = "thorough" THEN 24 ELSE 6), tg \in {"conn", "sess"}, rv \in BOOLEAN }
Header == [header |-> TRUE, family |-> "api", defs |-> SessionDefs(S), stable |-> <<"SIK", "K1", "K2">>,
           session |-> SessionRecipes(S), prefixes |-> [hs |-> HandshakeSteps(S)]]
ASSUME PrintT(<<"HEADER", ToJson(Header)>>)
ASSUME \A s \in Scripts : PrintT(<<"SCRIPT", ToJson(s)>>)
ASSUME PrintT(<<"COUNT", ToJson([n |-> Cardinality(Scripts)])>>)
=============================================================================
