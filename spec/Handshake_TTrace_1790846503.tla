---- MODULE Handshake_TTrace_1790846503 ----
EXTENDS Sequences, TLCExt, Toolbox, Naturals, TLC, Handshake

_expression ==
    LET Handshake_TEExpression == INSTANCE Handshake_TEExpression
    IN Handshake_TEExpression!expression
----

_trace ==
    LET Handshake_TETrace == INSTANCE Handshake_TETrace
    IN Handshake_TETrace!trace
----

_inv ==
    ~(
        TLCGet("level") = Len(_TETrace)
        /\
        r2 = ([tag |-> "tag", status |-> "ok", trunc |-> FALSE, auth |-> "H[sha1;pw;sidM,sidC,Rm,Rc,guid,role|ulen|uname]", sidM |-> "sidM", rc |-> "Rc", guid |-> "guid"])
        /\
        result = ("session")
        /\
        r4 = ([tag |-> "tag", status |-> "ok", trunc |-> FALSE, sikB |-> "H[sha1;pw;Rm,Rc,role|ulen|uname]", icv |-> "trunc(H[sha1;H[sha1;pw;Rm,Rc,role|ulen|uname];Rm,sidC,guid])"])
        /\
        pc = ("end")
        /\
        useKg = (FALSE)
        /\
        prop = (<<"sha1", "none", "aes">>)
        /\
        mut = ("osr.algWeaker")
        /\
        osr = ([tag |-> "tag", status |-> "ok", trunc |-> FALSE, sidC |-> "sidC", algs |-> <<"sha1", "sha1-96", "aes">>])
        /\
        cons = ([sidC |-> "sidC", algs |-> <<"sha1", "sha1-96", "aes">>, sik |-> "H[sha1;pw;Rm,Rc,role|ulen|uname]"])
    )
----

_init ==
    /\ prop = _TETrace[1].prop
    /\ osr = _TETrace[1].osr
    /\ cons = _TETrace[1].cons
    /\ mut = _TETrace[1].mut
    /\ pc = _TETrace[1].pc
    /\ r2 = _TETrace[1].r2
    /\ r4 = _TETrace[1].r4
    /\ result = _TETrace[1].result
    /\ useKg = _TETrace[1].useKg
----

_next ==
    /\ \E i,j \in DOMAIN _TETrace:
        /\ \/ /\ j = i + 1
              /\ i = TLCGet("level")
        /\ prop  = _TETrace[i].prop
        /\ prop' = _TETrace[j].prop
        /\ osr  = _TETrace[i].osr
        /\ osr' = _TETrace[j].osr
        /\ cons  = _TETrace[i].cons
        /\ cons' = _TETrace[j].cons
        /\ mut  = _TETrace[i].mut
        /\ mut' = _TETrace[j].mut
        /\ pc  = _TETrace[i].pc
        /\ pc' = _TETrace[j].pc
        /\ r2  = _TETrace[i].r2
        /\ r2' = _TETrace[j].r2
        /\ r4  = _TETrace[i].r4
        /\ r4' = _TETrace[j].r4
        /\ result  = _TETrace[i].result
        /\ result' = _TETrace[j].result
        /\ useKg  = _TETrace[i].useKg
        /\ useKg' = _TETrace[j].useKg

\* Uncomment the ASSUME below to write the states of the error trace
\* to the given file in Json format. Note that you can pass any tuple
\* to `JsonSerialize`. For example, a sub-sequence of _TETrace.
    \* ASSUME
    \*     LET J == INSTANCE Json
    \*         IN J!JsonSerialize("Handshake_TTrace_1790846503.json", _TETrace)

=============================================================================

 Note that you can extract this module `Handshake_TEExpression`
  to a dedicated file to reuse `expression` (the module in the 
  dedicated `Handshake_TEExpression.tla` file takes precedence 
  over the module `Handshake_TEExpression` below).

---- MODULE Handshake_TEExpression ----
EXTENDS Sequences, TLCExt, Toolbox, Naturals, TLC, Handshake

expression == 
    [
        \* To hide variables of the `Handshake` spec from the error trace,
        \* remove the variables below.  The trace will be written in the order
        \* of the fields of this record.
        prop |-> prop
        ,osr |-> osr
        ,cons |-> cons
        ,mut |-> mut
        ,pc |-> pc
        ,r2 |-> r2
        ,r4 |-> r4
        ,result |-> result
        ,useKg |-> useKg
        
        \* Put additional constant-, state-, and action-level expressions here:
        \* ,_stateNumber |-> _TEPosition
        \* ,_propUnchanged |-> prop = prop'
        
        \* Format the `prop` variable as Json value.
        \* ,_propJson |->
        \*     LET J == INSTANCE Json
        \*     IN J!ToJson(prop)
        
        \* Lastly, you may build expressions over arbitrary sets of states by
        \* leveraging the _TETrace operator.  For example, this is how to
        \* count the number of times a spec variable changed up to the current
        \* state in the trace.
        \* ,_propModCount |->
        \*     LET F[s \in DOMAIN _TETrace] ==
        \*         IF s = 1 THEN 0
        \*         ELSE IF _TETrace[s].prop # _TETrace[s-1].prop
        \*             THEN 1 + F[s-1] ELSE F[s-1]
        \*     IN F[_TEPosition - 1]
    ]

=============================================================================



Parsing and semantic processing can take forever if the trace below is long.
 In this case, it is advised to uncomment the module below to deserialize the
 trace from a generated binary file.

\*
\*---- MODULE Handshake_TETrace ----
\*EXTENDS IOUtils, TLC, Handshake
\*
\*trace == IODeserialize("Handshake_TTrace_1790846503.bin", TRUE)
\*
\*=============================================================================
\*

---- MODULE Handshake_TETrace ----
EXTENDS TLC, Handshake

trace == 
    <<
    ([r2 |-> [z |-> 0],result |-> "pending",r4 |-> [z |-> 0],pc |-> "osreq",useKg |-> FALSE,prop |-> <<"sha1", "none", "aes">>,mut |-> "osr.algWeaker",osr |-> [z |-> 0],cons |-> [z |-> 0]]),
    ([r2 |-> [z |-> 0],result |-> "pending",r4 |-> [z |-> 0],pc |-> "osrsp",useKg |-> FALSE,prop |-> <<"sha1", "none", "aes">>,mut |-> "osr.algWeaker",osr |-> [tag |-> "tag", status |-> "ok", trunc |-> FALSE, sidC |-> "sidC", algs |-> <<"sha1", "sha1-96", "aes">>],cons |-> [z |-> 0]]),
    ([r2 |-> [z |-> 0],result |-> "pending",r4 |-> [z |-> 0],pc |-> "rakp1",useKg |-> FALSE,prop |-> <<"sha1", "none", "aes">>,mut |-> "osr.algWeaker",osr |-> [tag |-> "tag", status |-> "ok", trunc |-> FALSE, sidC |-> "sidC", algs |-> <<"sha1", "sha1-96", "aes">>],cons |-> [sidC |-> "sidC", algs |-> <<"sha1", "sha1-96", "aes">>]]),
    ([r2 |-> [tag |-> "tag", status |-> "ok", trunc |-> FALSE, auth |-> "H[sha1;pw;sidM,sidC,Rm,Rc,guid,role|ulen|uname]", sidM |-> "sidM", rc |-> "Rc", guid |-> "guid"],result |-> "pending",r4 |-> [z |-> 0],pc |-> "chk2",useKg |-> FALSE,prop |-> <<"sha1", "none", "aes">>,mut |-> "osr.algWeaker",osr |-> [tag |-> "tag", status |-> "ok", trunc |-> FALSE, sidC |-> "sidC", algs |-> <<"sha1", "sha1-96", "aes">>],cons |-> [sidC |-> "sidC", algs |-> <<"sha1", "sha1-96", "aes">>]]),
    ([r2 |-> [tag |-> "tag", status |-> "ok", trunc |-> FALSE, auth |-> "H[sha1;pw;sidM,sidC,Rm,Rc,guid,role|ulen|uname]", sidM |-> "sidM", rc |-> "Rc", guid |-> "guid"],result |-> "pending",r4 |-> [z |-> 0],pc |-> "rakp3",useKg |-> FALSE,prop |-> <<"sha1", "none", "aes">>,mut |-> "osr.algWeaker",osr |-> [tag |-> "tag", status |-> "ok", trunc |-> FALSE, sidC |-> "sidC", algs |-> <<"sha1", "sha1-96", "aes">>],cons |-> [sidC |-> "sidC", algs |-> <<"sha1", "sha1-96", "aes">>]]),
    ([r2 |-> [tag |-> "tag", status |-> "ok", trunc |-> FALSE, auth |-> "H[sha1;pw;sidM,sidC,Rm,Rc,guid,role|ulen|uname]", sidM |-> "sidM", rc |-> "Rc", guid |-> "guid"],result |-> "pending",r4 |-> [tag |-> "tag", status |-> "ok", trunc |-> FALSE, sikB |-> "H[sha1;pw;Rm,Rc,role|ulen|uname]", icv |-> "trunc(H[sha1;H[sha1;pw;Rm,Rc,role|ulen|uname];Rm,sidC,guid])"],pc |-> "chk4",useKg |-> FALSE,prop |-> <<"sha1", "none", "aes">>,mut |-> "osr.algWeaker",osr |-> [tag |-> "tag", status |-> "ok", trunc |-> FALSE, sidC |-> "sidC", algs |-> <<"sha1", "sha1-96", "aes">>],cons |-> [sidC |-> "sidC", algs |-> <<"sha1", "sha1-96", "aes">>]]),
    ([r2 |-> [tag |-> "tag", status |-> "ok", trunc |-> FALSE, auth |-> "H[sha1;pw;sidM,sidC,Rm,Rc,guid,role|ulen|uname]", sidM |-> "sidM", rc |-> "Rc", guid |-> "guid"],result |-> "session",r4 |-> [tag |-> "tag", status |-> "ok", trunc |-> FALSE, sikB |-> "H[sha1;pw;Rm,Rc,role|ulen|uname]", icv |-> "trunc(H[sha1;H[sha1;pw;Rm,Rc,role|ulen|uname];Rm,sidC,guid])"],pc |-> "end",useKg |-> FALSE,prop |-> <<"sha1", "none", "aes">>,mut |-> "osr.algWeaker",osr |-> [tag |-> "tag", status |-> "ok", trunc |-> FALSE, sidC |-> "sidC", algs |-> <<"sha1", "sha1-96", "aes">>],cons |-> [sidC |-> "sidC", algs |-> <<"sha1", "sha1-96", "aes">>, sik |-> "H[sha1;pw;Rm,Rc,role|ulen|uname]"]])
    >>
----


=============================================================================

---- CONFIG Handshake_TTrace_1790846503 ----
CONSTANTS
    G_CheckRakp2 = TRUE
    G_CheckRakp4 = TRUE
    G_CheckStatus = TRUE
    G_CheckTag = TRUE
    G_CompareAlgs = FALSE
    G_RefuseNone = TRUE

INVARIANT
    _inv

CHECK_DEADLOCK
    \* CHECK_DEADLOCK off because of PROPERTY or INVARIANT above.
    FALSE

INIT
    _init

NEXT
    _next

CONSTANT
    _TETrace <- _trace

ALIAS
    _expression
=============================================================================
\* Generated on Thu Oct 01 09:21:44 UTC 2026