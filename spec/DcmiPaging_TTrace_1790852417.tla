---- MODULE DcmiPaging_TTrace_1790852417 ----
EXTENDS Sequences, TLCExt, DcmiPaging, Toolbox, Naturals, TLC

_expression ==
    LET DcmiPaging_TEExpression == INSTANCE DcmiPaging_TEExpression
    IN DcmiPaging_TEExpression!expression
----

_trace ==
    LET DcmiPaging_TETrace == INSTANCE DcmiPaging_TETrace
    IN DcmiPaging_TETrace!trace
----

_inv ==
    ~(
        TLCGet("level") = Len(_TETrace)
        /\
        acc = (<<>>)
        /\
        total = (1)
        /\
        fam = ("ipmi")
        /\
        nreq = (3)
        /\
        pc = ("done")
        /\
        counts = ([ipmi |-> <<0, 0, 0>>, dcmi |-> <<0, 1, 0>>])
        /\
        ent = (3)
        /\
        page = (1)
        /\
        out = ([ipmi |-> <<<<>>, <<>>, <<>>>>, dcmi |-> <<<<>>, <<>>, <<>>>>])
        /\
        ipmiErr = (FALSE)
    )
----

_init ==
    /\ out = _TETrace[1].out
    /\ ipmiErr = _TETrace[1].ipmiErr
    /\ counts = _TETrace[1].counts
    /\ page = _TETrace[1].page
    /\ fam = _TETrace[1].fam
    /\ ent = _TETrace[1].ent
    /\ acc = _TETrace[1].acc
    /\ nreq = _TETrace[1].nreq
    /\ pc = _TETrace[1].pc
    /\ total = _TETrace[1].total
----

_next ==
    /\ \E i,j \in DOMAIN _TETrace:
        /\ \/ /\ j = i + 1
              /\ i = TLCGet("level")
        /\ out  = _TETrace[i].out
        /\ out' = _TETrace[j].out
        /\ ipmiErr  = _TETrace[i].ipmiErr
        /\ ipmiErr' = _TETrace[j].ipmiErr
        /\ counts  = _TETrace[i].counts
        /\ counts' = _TETrace[j].counts
        /\ page  = _TETrace[i].page
        /\ page' = _TETrace[j].page
        /\ fam  = _TETrace[i].fam
        /\ fam' = _TETrace[j].fam
        /\ ent  = _TETrace[i].ent
        /\ ent' = _TETrace[j].ent
        /\ acc  = _TETrace[i].acc
        /\ acc' = _TETrace[j].acc
        /\ nreq  = _TETrace[i].nreq
        /\ nreq' = _TETrace[j].nreq
        /\ pc  = _TETrace[i].pc
        /\ pc' = _TETrace[j].pc
        /\ total  = _TETrace[i].total
        /\ total' = _TETrace[j].total

\* Uncomment the ASSUME below to write the states of the error trace
\* to the given file in Json format. Note that you can pass any tuple
\* to `JsonSerialize`. For example, a sub-sequence of _TETrace.
    \* ASSUME
    \*     LET J == INSTANCE Json
    \*         IN J!JsonSerialize("DcmiPaging_TTrace_1790852417.json", _TETrace)

=============================================================================

 Note that you can extract this module `DcmiPaging_TEExpression`
  to a dedicated file to reuse `expression` (the module in the 
  dedicated `DcmiPaging_TEExpression.tla` file takes precedence 
  over the module `DcmiPaging_TEExpression` below).

---- MODULE DcmiPaging_TEExpression ----
EXTENDS Sequences, TLCExt, DcmiPaging, Toolbox, Naturals, TLC

expression == 
    [
        \* To hide variables of the `DcmiPaging` spec from the error trace,
        \* remove the variables below.  The trace will be written in the order
        \* of the fields of this record.
        out |-> out
        ,ipmiErr |-> ipmiErr
        ,counts |-> counts
        ,page |-> page
        ,fam |-> fam
        ,ent |-> ent
        ,acc |-> acc
        ,nreq |-> nreq
        ,pc |-> pc
        ,total |-> total
        
        \* Put additional constant-, state-, and action-level expressions here:
        \* ,_stateNumber |-> _TEPosition
        \* ,_outUnchanged |-> out = out'
        
        \* Format the `out` variable as Json value.
        \* ,_outJson |->
        \*     LET J == INSTANCE Json
        \*     IN J!ToJson(out)
        
        \* Lastly, you may build expressions over arbitrary sets of states by
        \* leveraging the _TETrace operator.  For example, this is how to
        \* count the number of times a spec variable changed up to the current
        \* state in the trace.
        \* ,_outModCount |->
        \*     LET F[s \in DOMAIN _TETrace] ==
        \*         IF s = 1 THEN 0
        \*         ELSE IF _TETrace[s].out # _TETrace[s-1].out
        \*             THEN 1 + F[s-1] ELSE F[s-1]
        \*     IN F[_TEPosition - 1]
    ]

=============================================================================



Parsing and semantic processing can take forever if the trace below is long.
 In this case, it is advised to uncomment the module below to deserialize the
 trace from a generated binary file.

\*
\*---- MODULE DcmiPaging_TETrace ----
\*EXTENDS IOUtils, DcmiPaging, TLC
\*
\*trace == IODeserialize("DcmiPaging_TTrace_1790852417.bin", TRUE)
\*
\*=============================================================================
\*

---- MODULE DcmiPaging_TETrace ----
EXTENDS DcmiPaging, TLC

trace == 
    <<
    ([acc |-> <<>>,total |-> 1,fam |-> "ipmi",nreq |-> 0,pc |-> "req",counts |-> [ipmi |-> <<0, 0, 0>>, dcmi |-> <<0, 1, 0>>],ent |-> 1,page |-> 1,out |-> [ipmi |-> <<<<>>, <<>>, <<>>>>, dcmi |-> <<<<>>, <<>>, <<>>>>],ipmiErr |-> FALSE]),
    ([acc |-> <<>>,total |-> 1,fam |-> "ipmi",nreq |-> 1,pc |-> "req",counts |-> [ipmi |-> <<0, 0, 0>>, dcmi |-> <<0, 1, 0>>],ent |-> 2,page |-> 1,out |-> [ipmi |-> <<<<>>, <<>>, <<>>>>, dcmi |-> <<<<>>, <<>>, <<>>>>],ipmiErr |-> FALSE]),
    ([acc |-> <<>>,total |-> 1,fam |-> "ipmi",nreq |-> 2,pc |-> "req",counts |-> [ipmi |-> <<0, 0, 0>>, dcmi |-> <<0, 1, 0>>],ent |-> 3,page |-> 1,out |-> [ipmi |-> <<<<>>, <<>>, <<>>>>, dcmi |-> <<<<>>, <<>>, <<>>>>],ipmiErr |-> FALSE]),
    ([acc |-> <<>>,total |-> 1,fam |-> "ipmi",nreq |-> 3,pc |-> "done",counts |-> [ipmi |-> <<0, 0, 0>>, dcmi |-> <<0, 1, 0>>],ent |-> 3,page |-> 1,out |-> [ipmi |-> <<<<>>, <<>>, <<>>>>, dcmi |-> <<<<>>, <<>>, <<>>>>],ipmiErr |-> FALSE])
    >>
----


=============================================================================

---- CONFIG DcmiPaging_TTrace_1790852417 ----
CONSTANTS
    MaxCount = 4
    PageSizes = { 1 , 2 , 3 }
    G_Advance = TRUE
    G_Fallback = FALSE

INVARIANT
    _inv

CHECK_DEADLOCK
    \* CHECK_DEADLOCK off because of PROPERTY or INVARIANT above.
    FALSE

INIT
    _init

NEXT
    _next

CONSTANT
    _TETrace <- _trace

ALIAS
    _expression
=============================================================================
\* Generated on Thu Oct 01 11:00:23 UTC 2026