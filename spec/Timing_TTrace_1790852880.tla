---- MODULE Timing_TTrace_1790852880 ----
EXTENDS Sequences, TLCExt, Toolbox, Naturals, TLC, Timing

_expression ==
    LET Timing_TEExpression == INSTANCE Timing_TEExpression
    IN Timing_TEExpression!expression
----

_trace ==
    LET Timing_TETrace == INSTANCE Timing_TETrace
    IN Timing_TETrace!trace
----

_inv ==
    ~(
        TLCGet("level") = Len(_TETrace)
        /\
        result = ("pending")
        /\
        retAt = (-1)
        /\
        pc = ("sleep")
        /\
        arrival = (-1)
        /\
        kind = ("blackhole")
        /\
        now = (8)
        /\
        until = (9)
        /\
        attempts = (2)
    )
----

_init ==
    /\ result = _TETrace[1].result
    /\ now = _TETrace[1].now
    /\ arrival = _TETrace[1].arrival
    /\ until = _TETrace[1].until
    /\ attempts = _TETrace[1].attempts
    /\ retAt = _TETrace[1].retAt
    /\ pc = _TETrace[1].pc
    /\ kind = _TETrace[1].kind
----

_next ==
    /\ \E i,j \in DOMAIN _TETrace:
        /\ \/ /\ j = i + 1
              /\ i = TLCGet("level")
        /\ result  = _TETrace[i].result
        /\ result' = _TETrace[j].result
        /\ now  = _TETrace[i].now
        /\ now' = _TETrace[j].now
        /\ arrival  = _TETrace[i].arrival
        /\ arrival' = _TETrace[j].arrival
        /\ until  = _TETrace[i].until
        /\ until' = _TETrace[j].until
        /\ attempts  = _TETrace[i].attempts
        /\ attempts' = _TETrace[j].attempts
        /\ retAt  = _TETrace[i].retAt
        /\ retAt' = _TETrace[j].retAt
        /\ pc  = _TETrace[i].pc
        /\ pc' = _TETrace[j].pc
        /\ kind  = _TETrace[i].kind
        /\ kind' = _TETrace[j].kind

\* Uncomment the ASSUME below to write the states of the error trace
\* to the given file in Json format. Note that you can pass any tuple
\* to `JsonSerialize`. For example, a sub-sequence of _TETrace.
    \* ASSUME
    \*     LET J == INSTANCE Json
    \*         IN J!JsonSerialize("Timing_TTrace_1790852880.json", _TETrace)

=============================================================================

 Note that you can extract this module `Timing_TEExpression`
  to a dedicated file to reuse `expression` (the module in the 
  dedicated `Timing_TEExpression.tla` file takes precedence 
  over the module `Timing_TEExpression` below).

---- MODULE Timing_TEExpression ----
EXTENDS Sequences, TLCExt, Toolbox, Naturals, TLC, Timing

expression == 
    [
        \* To hide variables of the `Timing` spec from the error trace,
        \* remove the variables below.  The trace will be written in the order
        \* of the fields of this record.
        result |-> result
        ,now |-> now
        ,arrival |-> arrival
        ,until |-> until
        ,attempts |-> attempts
        ,retAt |-> retAt
        ,pc |-> pc
        ,kind |-> kind
        
        \* Put additional constant-, state-, and action-level expressions here:
        \* ,_stateNumber |-> _TEPosition
        \* ,_resultUnchanged |-> result = result'
        
        \* Format the `result` variable as Json value.
        \* ,_resultJson |->
        \*     LET J == INSTANCE Json
        \*     IN J!ToJson(result)
        
        \* Lastly, you may build expressions over arbitrary sets of states by
        \* leveraging the _TETrace operator.  For example, this is how to
        \* count the number of times a spec variable changed up to the current
        \* state in the trace.
        \* ,_resultModCount |->
        \*     LET F[s \in DOMAIN _TETrace] ==
        \*         IF s = 1 THEN 0
        \*         ELSE IF _TETrace[s].result # _TETrace[s-1].result
        \*             THEN 1 + F[s-1] ELSE F[s-1]
        \*     IN F[_TEPosition - 1]
    ]

=============================================================================



Parsing and semantic processing can take forever if the trace below is long.
 In this case, it is advised to uncomment the module below to deserialize the
 trace from a generated binary file.

\*
\*---- MODULE Timing_TETrace ----
\*EXTENDS IOUtils, TLC, Timing
\*
\*trace == IODeserialize("Timing_TTrace_1790852880.bin", TRUE)
\*
\*=============================================================================
\*

---- MODULE Timing_TETrace ----
EXTENDS TLC, Timing

trace == 
    <<
    ([result |-> "pending",retAt |-> -1,pc |-> "attempt",arrival |-> -1,kind |-> "none",now |-> 0,until |-> 0,attempts |-> 0]),
    ([result |-> "pending",retAt |-> -1,pc |-> "wait",arrival |-> -1,kind |-> "blackhole",now |-> 0,until |-> 3,attempts |-> 1]),
    ([result |-> "pending",retAt |-> -1,pc |-> "wait",arrival |-> -1,kind |-> "blackhole",now |-> 1,until |-> 3,attempts |-> 1]),
    ([result |-> "pending",retAt |-> -1,pc |-> "wait",arrival |-> -1,kind |-> "blackhole",now |-> 2,until |-> 3,attempts |-> 1]),
    ([result |-> "pending",retAt |-> -1,pc |-> "wait",arrival |-> -1,kind |-> "blackhole",now |-> 3,until |-> 3,attempts |-> 1]),
    ([result |-> "pending",retAt |-> -1,pc |-> "sleep",arrival |-> -1,kind |-> "blackhole",now |-> 3,until |-> 5,attempts |-> 1]),
    ([result |-> "pending",retAt |-> -1,pc |-> "sleep",arrival |-> -1,kind |-> "blackhole",now |-> 4,until |-> 5,attempts |-> 1]),
    ([result |-> "pending",retAt |-> -1,pc |-> "sleep",arrival |-> -1,kind |-> "blackhole",now |-> 5,until |-> 5,attempts |-> 1]),
    ([result |-> "pending",retAt |-> -1,pc |-> "attempt",arrival |-> -1,kind |-> "blackhole",now |-> 5,until |-> 5,attempts |-> 1]),
    ([result |-> "pending",retAt |-> -1,pc |-> "wait",arrival |-> -1,kind |-> "blackhole",now |-> 5,until |-> 7,attempts |-> 2]),
    ([result |-> "pending",retAt |-> -1,pc |-> "wait",arrival |-> -1,kind |-> "blackhole",now |-> 6,until |-> 7,attempts |-> 2]),
    ([result |-> "pending",retAt |-> -1,pc |-> "wait",arrival |-> -1,kind |-> "blackhole",now |-> 7,until |-> 7,attempts |-> 2]),
    ([result |-> "pending",retAt |-> -1,pc |-> "sleep",arrival |-> -1,kind |-> "blackhole",now |-> 7,until |-> 9,attempts |-> 2]),
    ([result |-> "pending",retAt |-> -1,pc |-> "sleep",arrival |-> -1,kind |-> "blackhole",now |-> 8,until |-> 9,attempts |-> 2])
    >>
----


=============================================================================

---- CONFIG Timing_TTrace_1790852880 ----
CONSTANTS
    D = 7
    T = 3
    Bk = 2
    InSession = FALSE
    Faults = { "blackhole" , "late" , "garbage" , "temp" , "good" }
    G_Nested = TRUE
    G_BackoffCtx = FALSE

INVARIANT
    _inv

CHECK_DEADLOCK
    \* CHECK_DEADLOCK off because of PROPERTY or INVARIANT above.
    FALSE

INIT
    _init

NEXT
    _next

CONSTANT
    _TETrace <- _trace

ALIAS
    _expression
=============================================================================
\* Generated on Thu Oct 01 11:08:01 UTC 2026