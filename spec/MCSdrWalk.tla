----------------------------- MODULE MCSdrWalk -----------------------------
EXTENDS SdrWalk
\* initial <<addition, erase>> time stamps: equal, and an erase time far behind the addition time
StampsDef == { <<1, 1>>, <<5, 1>> }
=============================================================================
