"""Scenario families: each runs TLC generation (cached), replays on the real
library, validates the recorded traces with TLC, and returns what was seen."""
import concurrent.futures as cf
import glob, hashlib, json, os, re, shutil, subprocess, threading, time

import vlib


def spec_hash(extra=""):
    h = hashlib.sha256()
    for p in sorted(glob.glob(os.path.join(vlib.SPEC, "*.tla")) + glob.glob(os.path.join(vlib.SPEC, "cfg", "*"))):
        h.update(p.encode())
        h.update(open(p, "rb").read())
    h.update(extra.encode())
    return h.hexdigest()[:20]


def cache_dir():
    d = os.path.join(vlib.VERIF, "cache")
    os.makedirs(d, exist_ok=True)
    return d


_gen_locks = {}
_gen_guard = threading.Lock()


def generate(module, cfg_template, subst, work, name, workers=1, tags=("SCRIPT",), timeout=1800, extra=(), heap="4g"):
    """Run a generation config (cached by spec hash + parameters). Returns (path, count, tlc stats)."""
    key = spec_hash(module + cfg_template + json.dumps(subst, sort_keys=True) + json.dumps(list(extra)))
    dest = os.path.join(cache_dir(), "%s-%s.ndjson" % (name, key))
    with _gen_guard:
        lock = _gen_locks.setdefault(dest, threading.Lock())
    with lock:      # a family and its past variant share one generation
        return _generate(module, cfg_template, subst, work, name, workers, tags, timeout, extra, heap, dest)


def _generate(module, cfg_template, subst, work, name, workers, tags, timeout, extra, heap, dest):
    meta = dest + ".meta"
    if os.path.exists(dest) and os.path.exists(meta):
        m = json.load(open(meta))
        try:
            os.utime(dest)          # mark as in use (pruning below goes by age)
        except OSError:
            pass
        return dest, m["count"], m["stats"]
    cfg = vlib.write_cfg(cfg_template, os.path.join(work, name + ".cfg"), **subst)
    rc, out = vlib.tlc(module, cfg, work, workers=workers, timeout=timeout, extra=extra, heap=heap)
    st = vlib.tlc_stats(out)
    if rc != 0 or not st["ok"]:
        tail = subprocess.run(["tail", "-30", out], stdout=subprocess.PIPE, text=True).stdout
        tail = "\n".join(l[:300] for l in tail.splitlines() if not l.startswith('<<"'))
        raise vlib.Inconclusive("generation %s failed (rc=%s):\n%s" % (name, rc, tail))
    tmp = dest + ".tmp%d" % os.getpid()
    n = vlib.unwrap(out, tmp, tags=tags)
    os.replace(tmp, dest)
    json.dump({"count": n, "stats": st}, open(meta, "w"))
    # older generations of the same family (other spec hashes) are dead weight
    for old in glob.glob(os.path.join(cache_dir(), "%s-*.ndjson" % name)):
        # (only what has not been used for hours: another tier, or a check running at the same time, may be reading its own)
        if old != dest and re.fullmatch(re.escape(name) + r"-[0-9a-f]{20}\.ndjson", os.path.basename(old)) \
                and time.time() - os.path.getmtime(old) > 4 * 3600:
            for f in (old, old + ".meta"):
                try:
                    os.unlink(f)
                except OSError:
                    pass
    os.unlink(out)
    return dest, n, st


def model_check(module, cfg_name, work, workers=16, heap="8g", timeout=3000, subst=None):
    """Exhaustive TLC run of a committed MC_*.cfg. Returns stats; raises Inconclusive on any TLC error."""
    src = os.path.join(vlib.SPEC, "cfg", cfg_name)
    cfg = src
    if subst:
        cfg = vlib.write_cfg(cfg_name, os.path.join(work, cfg_name.replace(".tpl", "")), **subst)
    rc, out = vlib.tlc(module, cfg, work, workers=workers, heap=heap, timeout=timeout)
    st = vlib.tlc_stats(out)
    st["cfg"] = cfg_name
    if rc != 0 or not st["ok"]:
        tail = subprocess.run(["tail", "-40", out], stdout=subprocess.PIPE, text=True).stdout
        raise vlib.Inconclusive("model checking %s did not complete cleanly (rc=%s):\n%s" % (cfg_name, rc, tail))
    os.unlink(out)
    return st


def expect_violation(module, cfg_name, work, invariant, workers=8, timeout=900):
    """Mutant configs: TLC must report `invariant` violated (non-vacuity of the model)."""
    rc, out = vlib.tlc(module, os.path.join(vlib.SPEC, "cfg", cfg_name), work, workers=workers, timeout=timeout)
    txt = open(out, errors="replace").read()
    os.unlink(out)
    # with several workers TLC may reach a different violated invariant of the same mutant first: any of the
    # module's invariants / action properties being reported violated shows the guard is necessary
    return ("Invariant %s is violated" % invariant) in txt or bool(re.search(r"Invariant \w+ is violated|Action property \w+ is violated|Temporal properties were violated", txt))


def replay(scripts, work, name, workers=16, shard=30000, race=False, watchdog=10000, extra_args=()):
    out = os.path.join(work, name + ".trace")
    p = vlib.harness(["replay", "-in", scripts, "-out", out, "-workers", str(workers), "-shard", str(shard),
                      "-watchdog", str(watchdog)] + list(extra_args), race=race)
    raced = race and p.returncode == 66 and "DATA RACE" in p.stderr and p.stdout.strip().startswith("{")
    if p.returncode != 0 and not raced:
        raise vlib.Inconclusive("harness replay failed: rc=%s\n%s\n%s" % (p.returncode, p.stdout[-2000:], p.stderr[-4000:]))
    info = json.loads(p.stdout.strip().splitlines()[-1])
    info["race_reports"] = p.stderr.count("WARNING: DATA RACE")
    info["stderr"] = p.stderr[-4000:] if info["race_reports"] else ""
    files = sorted(glob.glob(out + ".*"), key=lambda s: int(s.rsplit(".", 1)[1]))
    return files, info


def _validate_one(args):
    module, cfgname, trace, tracecfg, work, idx = args
    w = os.path.join(work, "tv-%s-%d" % (os.path.basename(trace), idx))
    os.makedirs(w, exist_ok=True)
    env_props = []
    os.environ_copy = None
    meta = os.path.join(w, "meta")
    tmp = os.path.join(w, "jtmp")
    os.makedirs(tmp, exist_ok=True)
    out = os.path.join(w, "tv.out")
    cmd = ["java", "-Xmx3g", "-Xss64m", "-XX:+UseParallelGC", "-Djava.io.tmpdir=" + tmp, "-cp", vlib.JAR, "tlc2.TLC",
           "-workers", "1", "-metadir", meta, "-noGenerateSpecTE", "-config",
           os.path.join(vlib.SPEC, "cfg", cfgname), module + ".tla"]
    env = dict(os.environ, VERIF_TRACE=trace, VERIF_TRACECFG=tracecfg)
    with open(out, "w") as f:
        try:
            rc = subprocess.run(cmd, cwd=vlib.SPEC, stdout=f, stderr=subprocess.STDOUT, env=env, timeout=1800).returncode
        except subprocess.TimeoutExpired:
            rc = 124
    viols = vlib.printed(out, "VIOL")
    post = vlib.printed(out, "POST")
    st = vlib.tlc_stats(out)
    txt_tail = ""
    if not post:
        txt_tail = subprocess.run(["tail", "-25", out], stdout=subprocess.PIPE, text=True).stdout
    shutil.rmtree(w, ignore_errors=True)
    return {"rc": rc, "viols": viols, "post": post[0] if post else None, "states": st["distinct"], "tail": txt_tail,
            "trace": trace}


def validate(module, cfgname, traces, tracecfg, work, parallel=12):
    """TLC trace validation of each shard. Returns list of per-shard results."""
    jobs = [(module, cfgname, t, tracecfg, work, i) for i, t in enumerate(traces)]
    with cf.ThreadPoolExecutor(max_workers=parallel) as ex:
        return list(ex.map(_validate_one, jobs))


def summarise(results):
    """Merge shard results: (accepted, consumed, events, viols) ; raise Inconclusive if TLC itself failed."""
    consumed = events = 0
    viols = []
    for r in results:
        if r["post"] is None:
            raise vlib.Inconclusive("trace validation crashed on %s (rc=%s):\n%s" % (r["trace"], r["rc"], r["tail"]))
        consumed += r["post"]["consumed"]
        events += r["post"]["events"]
        for v in r["viols"]:
            v["trace"] = r["trace"]
            viols.append(v)
    return consumed == events, consumed, events, viols


def known_pairs():
    k = vlib.load_known()
    return [{"prop": f["property"], "pred": f["pred"]} for f in k.get("findings", [])]


def console_family(work, name, insess, cmds, maxcalls, maxatt, kinds, auth=1, integ=1, codes="Codes3", dupcodes="CodesOk", gen_workers=1, past=None, gen_name=None):
    subst = dict(INSESSION="TRUE" if insess else "FALSE", CMDS=cmds, MAXCALLS=maxcalls, MAXATT=maxatt, KINDS=kinds,
                 AUTH=auth, INTEG=integ, CODES=codes, DUPCODES=dupcodes)
    t0 = time.time()
    scripts, n, gst = generate("MCGenConsole", "Gen_Console.cfg.tpl", subst, work, gen_name or name, workers=gen_workers)
    t1 = time.time()
    hdr = json.loads(open(scripts).readline())
    if past is not None:
        scripts = with_past(scripts, work, name, past)
    traces, info = replay(scripts, work, name)
    t2 = time.time()
    tracecfg = os.path.join(work, name + ".tracecfg.json")
    json.dump({"integLen": hdr["suite"]["integLen"], "bmcSid": hdr["suite"]["bmcSid"], "cmds": hdr["cmds"],
               "known": known_pairs()}, open(tracecfg, "w"))
    res = validate("TraceConsole", "Trace_Console.cfg", traces, tracecfg, work)
    accepted, consumed, events, viols = summarise(res)
    t3 = time.time()
    return {"name": name, "scripts": n, "scripts_file": scripts, "gen_states": gst["distinct"], "events": events,
            "consumed": consumed, "accepted": accepted, "viols": viols, "traces": traces,
            "times": {"gen": round(t1 - t0, 1), "replay": round(t2 - t1, 1), "validate": round(t3 - t2, 1)},
            "subst": subst}


def handshake_family(work, name, family, tier, seed, opts=None, workers=16, metrics=False, race=False, isolate=False, past=None, gen_name=None):
    """GenHandshake scenarios -> replay -> TraceHandshake validation."""
    subst = dict(SEED=seed, FAMILY=family, TIER=tier)
    t0 = time.time()
    scripts, n, gst = generate("MCGenHandshake", "Gen_Handshake.cfg.tpl", subst, work, gen_name or name, heap="6g", extra=())
    t1 = time.time()
    src = scripts
    if opts:
        # transport variants (exact-capacity replies, poisoned receive buffer) are harness options, not new scenarios
        src = os.path.join(work, name + ".opts.ndjson")
        with open(scripts) as f, open(src, "w") as o:
            for i, line in enumerate(f):
                if i == 0:
                    o.write(line)
                    continue
                d = json.loads(line)
                d["opts"] = dict(d.get("opts") or {}, **opts)
                o.write(json.dumps(d) + "\n")
    if past is not None:
        src = with_past(src, work, name, past)
    if metrics:
        traces, info = replay_sharded_procs(src, work, name)
    else:
        traces, info = replay(src, work, name, workers=workers, race=race, extra_args=("-isolate",) if isolate else ())
    t2 = time.time()
    tracecfg = os.path.join(work, name + ".tracecfg.json")
    json.dump({"known": known_pairs()}, open(tracecfg, "w"))
    res = validate("TraceHandshake", "Trace_Console.cfg", traces, tracecfg, work)
    accepted, consumed, events, viols = summarise(res)
    t3 = time.time()
    return {"name": name, "scripts": n, "scripts_file": src, "gen_states": gst["distinct"], "events": events,
            "consumed": consumed, "accepted": accepted, "viols": viols, "traces": traces, "replay_info": info,
            "times": {"gen": round(t1 - t0, 1), "replay": round(t2 - t1, 1), "validate": round(t3 - t2, 1)},
            "subst": dict(subst, opts=opts)}


def with_past(scripts, work, name, variant):
    """The same scripts on a connection that has a past: the steps GenPast.tla evaluates to (TLC-generated, cached) go into
    the header, and every script gets the option `past`. Nothing else changes - in particular no expectation."""
    pfile, _, _ = generate("MCGenPast", "Gen_Cipher.cfg.tpl", dict(SEED=variant, FAMILY="past", TIER="quick"), work, "past-%d" % variant)
    past = None
    with open(pfile) as f:
        for line in f:
            d = json.loads(line)
            if d.get("past") is True:
                past = d["steps"]
    if not past:
        raise vlib.Inconclusive("GenPast produced no steps")
    dst = os.path.join(work, name + ".past.ndjson")
    with open(scripts) as f, open(dst, "w") as o:
        for i, line in enumerate(f):
            d = json.loads(line)
            if i == 0:
                d["past"] = past
            else:
                d["opts"] = dict(d.get("opts") or {}, past=True)
            o.write(json.dumps(d) + "\n")
    return dst


def walk_family(work, name, module, cfg_tpl, family, tier, seed, workers=16, opts=None, extra_subst=None, race=False, metrics=False, isolate=False, past=None, gen_name=None):
    """Scenarios whose expectation travels in `exp` (TraceWalk.tla)."""
    subst = dict(SEED=seed, FAMILY=family, TIER=tier)
    if extra_subst:
        subst.update(extra_subst)
    t0 = time.time()
    scripts, n, gst = generate(module, cfg_tpl, subst, work, gen_name or name, heap="6g")
    t1 = time.time()
    src = scripts
    if opts:
        src = os.path.join(work, name + ".opts.ndjson")
        with open(scripts) as f, open(src, "w") as o:
            for i, line in enumerate(f):
                if i == 0:
                    o.write(line)
                    continue
                d = json.loads(line)
                d["opts"] = dict(d.get("opts") or {}, **opts)
                o.write(json.dumps(d) + "\n")
    if past is not None:
        src = with_past(src, work, name, past)
    if metrics:
        traces, info = replay_sharded_procs(src, work, name)
    else:
        traces, info = replay(src, work, name, workers=workers, race=race, extra_args=("-isolate",) if isolate else ())
    t2 = time.time()
    tracecfg = os.path.join(work, name + ".tracecfg.json")
    json.dump({"known": known_pairs()}, open(tracecfg, "w"))
    res = validate("TraceWalk", "Trace_Console.cfg", traces, tracecfg, work)
    accepted, consumed, events, viols = summarise(res)
    t3 = time.time()
    return {"name": name, "scripts": n, "scripts_file": src, "gen_states": gst["distinct"], "events": events,
            "consumed": consumed, "accepted": accepted, "viols": viols, "traces": traces, "replay_info": info,
            "times": {"gen": round(t1 - t0, 1), "replay": round(t2 - t1, 1), "validate": round(t3 - t2, 1)},
            "subst": dict(subst, opts=opts)}


def replay_sharded_procs(scripts, work, name, procs=16, extra_args=("-metrics",)):
    """One harness *process* per shard (single worker each): the Prometheus registry is process-global, so
    metric snapshots are only meaningful when one connection runs at a time per process."""
    exe = vlib.build_harness()
    with open(scripts) as f:
        hdr = f.readline()
        lines = f.readlines()
    procs = max(1, min(procs, len(lines)))
    parts = [lines[i::procs] for i in range(procs)]
    ps = []
    for i, part in enumerate(parts):
        src = os.path.join(work, "%s.part%d.ndjson" % (name, i))
        with open(src, "w") as o:
            o.write(hdr)
            o.writelines(part)
        out = os.path.join(work, "%s.mtrace.%d" % (name, i))
        ps.append((subprocess.Popen([exe, "replay", "-in", src, "-out", out, "-workers", "1"] + list(extra_args),
                                    stdout=subprocess.PIPE, stderr=subprocess.PIPE, text=True, env=vlib.GOENV), out))
    traces, events = [], 0
    for p, out in ps:
        so, se = p.communicate(timeout=1800)
        if p.returncode != 0:
            raise vlib.Inconclusive("harness process failed: %s %s" % (so[-500:], se[-2000:]))
        events += json.loads(so.strip().splitlines()[-1])["events"]
        traces.append(out)
    return traces, {"events": events, "procs": procs}


def console_metrics_family(work, name, insess, cmds, maxcalls, maxatt, kinds, auth=1, integ=1, codes="Codes3", dupcodes="CodesOk"):
    subst = dict(INSESSION="TRUE" if insess else "FALSE", CMDS=cmds, MAXCALLS=maxcalls, MAXATT=maxatt, KINDS=kinds,
                 AUTH=auth, INTEG=integ, CODES=codes, DUPCODES=dupcodes)
    t0 = time.time()
    scripts, n, gst = generate("MCGenConsole", "Gen_Console.cfg.tpl", subst, work, name)
    t1 = time.time()
    hdr = json.loads(open(scripts).readline())
    traces, info = replay_sharded_procs(scripts, work, name)
    t2 = time.time()
    tracecfg = os.path.join(work, name + ".tracecfg.json")
    json.dump({"integLen": hdr["suite"]["integLen"], "bmcSid": hdr["suite"]["bmcSid"], "cmds": hdr["cmds"],
               "known": known_pairs()}, open(tracecfg, "w"))
    res = validate("TraceConsole", "Trace_Console.cfg", traces, tracecfg, work)
    accepted, consumed, events, viols = summarise(res)
    t3 = time.time()
    return {"name": name, "scripts": n, "scripts_file": scripts, "gen_states": gst["distinct"], "events": events,
            "consumed": consumed, "accepted": accepted, "viols": viols, "traces": traces,
            "times": {"gen": round(t1 - t0, 1), "replay": round(t2 - t1, 1), "validate": round(t3 - t2, 1)},
            "subst": dict(subst, metrics=True)}


def vector_family(work, name, module, cfg_tpl, family, tier, seed, extra_subst=None):
    """TLC-generated vectors -> harness `vectors` -> TraceVec validation."""
    subst = dict(SEED=seed, FAMILY=family, TIER=tier)
    if extra_subst:
        subst.update(extra_subst)
    t0 = time.time()
    vecs, n, gst = generate(module, cfg_tpl, subst, work, name, heap="8g")
    t1 = time.time()
    out = os.path.join(work, name + ".res")
    p = vlib.harness(["vectors", "-in", vecs, "-out", out, "-workers", "16"])
    if p.returncode != 0:
        raise vlib.Inconclusive("vector runner failed: %s %s" % (p.stdout[-500:], p.stderr[-3000:]))
    files = sorted(glob.glob(out + ".*"), key=lambda s: int(s.rsplit(".", 1)[1]))
    t2 = time.time()
    tracecfg = os.path.join(work, name + ".tracecfg.json")
    json.dump({"known": known_pairs()}, open(tracecfg, "w"))
    res = validate("TraceVec", "Trace_Console.cfg", files, tracecfg, work)
    accepted, consumed, events, viols = summarise(res)
    t3 = time.time()
    return {"name": name, "scripts": n, "scripts_file": vecs, "gen_states": gst["distinct"], "events": events,
            "consumed": consumed, "accepted": accepted, "viols": viols, "traces": files,
            "times": {"gen": round(t1 - t0, 1), "replay": round(t2 - t1, 1), "validate": round(t3 - t2, 1)},
            "subst": subst}


DROP = {"raw", "plain", "n", "ms", "script", "iv", "errText"}


def normalised(trace_files):
    """script id -> list of events without the fields that legitimately differ between runs (random IVs and
    console randoms, timings)."""
    out = {}
    for tf in trace_files:
        with open(tf) as f:
            for line in f:
                e = json.loads(line)
                sid = e.get("script")
                if e.get("ev") == "reset":
                    cur = out.setdefault((os.path.basename(tf).split(".trace")[0], e.get("id")), [])
                    key = (os.path.basename(tf).split(".trace")[0], e.get("id"))
                    cur.clear()
                d = {k: v for k, v in e.items() if k not in DROP}
                if isinstance(d.get("value"), dict):
                    d["value"] = {k: v for k, v in d["value"].items() if k not in ("SIK", "K1", "K2", "LocalID")}
                out[key].append(d)
    return out
