----------------------------- MODULE MCConsole -----------------------------
EXTENDS Console
KindsAll     == AllKinds
KindsRetry   == {"final", "garbage", "trunc", "lost", "xerr", "badsig"}
KindsForge   == {"final", "unauth", "unauthmine", "wrongsid", "badsig", "badpad", "stale"}
KindsDesync  == {"final", "late", "dup", "stale", "lost"}
KindsSessionless == {"final", "garbage", "trunc", "lost", "xerr", "late", "dup", "stale"}
CodesAll == Codes
Codes3 == {"ok", "err", "busy"}
CodesOk == {"ok"}
CodesOkBusy == {"ok", "busy"}
KindsRetryNS == {"final", "garbage", "trunc", "lost", "xerr"}
NeedsBodyDef == {"A", "B"}
CmdsGH == {"G", "H"}
CmdsAGH == {"A", "G", "H"}
CodesOkErr == {"ok", "err"}
CmdsAB == {"A", "B"}
CmdsABX == {"A", "B", "X"}
CmdsAX == {"A", "X"}
RefusedDef == {"X"}
CmdsAC == {"A", "C"}
CmdsRQ == {"R", "Q"}
CmdsCR == {"C", "R"}
=============================================================================
