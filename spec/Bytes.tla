------------------------------- MODULE Bytes -------------------------------
(* Bytes are integers 0..255; byte strings are sequences.  TLC integers are
   32-bit signed, so every 32-bit wire quantity is a 4-byte sequence here,
   never an integer. *)
EXTENDS Integers, Sequences

Byte == 0..255
LE16(n) == << n % 256, (n \div 256) % 256 >>
LE24(n) == << n % 256, (n \div 256) % 256, (n \div 65536) % 256 >>
LE32s(n) == << n % 256, (n \div 256) % 256, (n \div 65536) % 256, (n \div 16777216) % 256 >>  \* 0 <= n < 2^31
LE16v(s) == s[1] + 256 * s[2]
LE24v(s) == s[1] + 256 * s[2] + 65536 * s[3]
Sub(s, a, b) == SubSeq(s, a + 1, b)          \* 0-based half-open, like Go s[a:b]
Take(s, n) == SubSeq(s, 1, n)
Drop(s, n) == SubSeq(s, n + 1, Len(s))
Repeat(b, n) == [i \in 1..n |-> b]
Bit(b, i) == (b \div (2 ^ i)) % 2                     \* bit i of byte b (0 = LSB)
Bits(b, hi, lo) == (b \div (2 ^ lo)) % (2 ^ (hi - lo + 1))
BoolBit(x, i) == IF x THEN 2 ^ i ELSE 0
RECURSIVE SumSeq(_)
SumSeq(s) == IF s = <<>> THEN 0 ELSE Head(s) + SumSeq(Tail(s))
\* IPMI 13.8: two's complement checksum - the unique c with (sum + c) % 256 = 0
Checksum(s) == (256 - (SumSeq(s) % 256)) % 256
Min(a, b) == IF a < b THEN a ELSE b
Max(a, b) == IF a > b THEN a ELSE b
RECURSIVE Flatten(_)
Flatten(ss) == IF ss = <<>> THEN <<>> ELSE Head(ss) \o Flatten(Tail(ss))
IsPrefixOf(p, s) == Len(p) <= Len(s) /\ SubSeq(s, 1, Len(p)) = p
=============================================================================
