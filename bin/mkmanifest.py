#!/usr/bin/env python3
"""Regenerate MANIFEST.json from the table below (kept in one place so it stays valid)."""
import json, os
V = os.path.dirname(os.path.dirname(os.path.abspath(__file__)))
TECH = "TLA+ model checked with TLC; TLC-generated behaviours replayed on the real library; recorded traces validated by TLC"
C = {
 "C18": ("model_checking", "Console.tla carries the exported counters and an independent ghost count (C18_Metrics, exhaustive); on the real library the registry is gathered after every call and TLC compares every bmc_* key with MetricsLaw.tla's exact expected change, over exhaustive command outcome sequences and session/connection lifecycle histories", "6 C18"),
 "C03": ("exploration", "every in-session datagram recorded from the real library (honest sessions for all 9 suites with message lengths 0..40, long histories, exhaustive retry sequences) is parsed and judged by TLC against Wire.tla/Crypto.tla; quantifier is over inputs and histories, so this is exploration with trace validation", "6 C03"),
 "C12": ("model_checking", "selection function checked by TLC over every preference list (len 0..3 over 5 suites) x every advertised subset; the same cases and every algorithm triple in the Open Session Response replayed; the proposal on the wire is parsed by TLC", "6 C12"),
 "C16": ("model_checking", "CipherSelect.tla (chunked retrieval, record grammar) exhaustively for small record universes incl. malformed tails; generated record lists (0..20 records, exact multiples of 16) served by a rule-driven BMC and results compared by TLC with the specification", "6 C16"),
 "C01": ("model_checking", "Handshake.tla (C01_KeyAgreement, C01_HonestSupportedSucceeds) exhaustively; honest handshakes for every supported suite x every username/password length x privilege x lookup x KG against the RAKP term algebra of Crypto.tla, keys compared and every later command verified/decrypted with the BMC-side keys; traces validated by TLC", "6 C01"),
 "C02": ("model_checking", "Handshake.tla with the mutation alphabet (C02_OnlyIfAuthentic, C02_IncorrectPassword); every single-bit flip of the authenticated fields, every status, every other tag, every truncation of each reply replayed on the real library (also with exact-capacity receive slices); traces validated by TLC", "6 C02"),
 "C04": ("model_checking", "Console.tla: invariant C04_Authentic over every interleaving of forged/authentic replies (exhaustive, bounded); the same behaviours are replayed on the real V2Session and every recorded return is judged by TLC against the datagram it was based on", "6 C04"),
 "C09": ("model_checking", "Console.tla: C09_SeqConsecutive / C09_SessionlessNull / C09_Monotone exhaustively over calls x attempts x outcome alphabet; every real datagram's session ID and sequence number is parsed and checked by TLC (TraceConsole.tla)", "6 C09"),
 "C10": ("model_checking", "Console.tla is the reference model of the documented retry behaviour; exhaustive outcome sequences are replayed and TLC compares each real transmission and return with the model's prediction and with the property predicates", "6 C10"),
 "C11": ("model_checking", "Console.tla with an explicit socket queue (late, duplicated, stale replies): C11_Match exhaustively; replayed histories are validated by TLC", "6 C11"),
}
NA = {}
def main():
    props = [json.loads(l)["id"] for l in open(os.path.join(V, "properties.jsonl"))]
    checks = []
    for pid in props:
        if pid in C:
            lvl, text, ref = C[pid]
            checks.append({"property_id": pid,
                "quick_cmd": "bin/check %s --tier quick" % pid,
                "thorough_cmd": "bin/check %s --tier thorough" % pid,
                "evidence_file": "evidence/%s.json" % pid,
                "engine": "tlc+bmcreplay",
                "level_claimed": {"category": lvl, "text": text, "design_ref": "DESIGN.md section " + ref},
                "level_note": "Trusted: TLC 1.8, the TLA+ transcription of the IPMI/DCMI tables under spec/, Go stdlib crypto used to evaluate terms, the in-memory transport's fidelity to transport.Send; bounds as recorded in the evidence",
                "technique": TECH})
    na = [{"property_id": p, "reason": NA.get(p, "check not built yet in this revision of the framework (planned, see DESIGN.md section 6); nothing is claimed for it")} for p in props if p not in C]
    m = {"version": 1,
         "setup_cmd": "bin/setup",
         "hooks": {"guard": "verif", "enable": "go build -tags verif (the harness module replaces github.com/gebn/bmc with /repo)",
                   "baseline_off_cmd": "cd /repo && GOFLAGS=-mod=mod GOPROXY=off GOSUMDB=off GOTOOLCHAIN=local go test -vet=off -count=1 ./...",
                   "source_commits": ["1690df8"], "add_only": True},
         "engines": [{"name": "tlc+bmcreplay", "path": "bin/check", "serves_properties": sorted(C),
                      "kind_free_text": "TLA+ specifications (spec/*.tla) checked and enumerated by TLC; Go script interpreter (harness/) replays TLC-generated behaviours on the real library and records traces; TLC validates the traces"}],
         "checks": checks, "not_applicable": na,
         "notes": "Exit 2 from a check means inconclusive (tooling failure), never a verdict. known_findings.json lists recorded and fixed defects."}
    json.dump(m, open(os.path.join(V, "MANIFEST.json"), "w"), indent=1)
if __name__ == "__main__":
    main()
