---- MODULE Concurrent_TTrace_1790853111 ----
EXTENDS Sequences, TLCExt, Concurrent, Toolbox, Naturals, TLC

_expression ==
    LET Concurrent_TEExpression == INSTANCE Concurrent_TEExpression
    IN Concurrent_TEExpression!expression
----

_trace ==
    LET Concurrent_TETrace == INSTANCE Concurrent_TETrace
    IN Concurrent_TETrace!trace
----

_inv ==
    ~(
        TLCGet("level") = Len(_TETrace)
        /\
        shared = (11)
        /\
        loc = (<<0, 11, 0>>)
        /\
        pc = (<<0, 1, 0>>)
        /\
        tmp = (<<"parked", "idle", "idle">>)
    )
----

_init ==
    /\ shared = _TETrace[1].shared
    /\ pc = _TETrace[1].pc
    /\ tmp = _TETrace[1].tmp
    /\ loc = _TETrace[1].loc
----

_next ==
    /\ \E i,j \in DOMAIN _TETrace:
        /\ \/ /\ j = i + 1
              /\ i = TLCGet("level")
        /\ shared  = _TETrace[i].shared
        /\ shared' = _TETrace[j].shared
        /\ pc  = _TETrace[i].pc
        /\ pc' = _TETrace[j].pc
        /\ tmp  = _TETrace[i].tmp
        /\ tmp' = _TETrace[j].tmp
        /\ loc  = _TETrace[i].loc
        /\ loc' = _TETrace[j].loc

\* Uncomment the ASSUME below to write the states of the error trace
\* to the given file in Json format. Note that you can pass any tuple
\* to `JsonSerialize`. For example, a sub-sequence of _TETrace.
    \* ASSUME
    \*     LET J == INSTANCE Json
    \*         IN J!JsonSerialize("Concurrent_TTrace_1790853111.json", _TETrace)

=============================================================================

 Note that you can extract this module `Concurrent_TEExpression`
  to a dedicated file to reuse `expression` (the module in the 
  dedicated `Concurrent_TEExpression.tla` file takes precedence 
  over the module `Concurrent_TEExpression` below).

---- MODULE Concurrent_TEExpression ----
EXTENDS Sequences, TLCExt, Concurrent, Toolbox, Naturals, TLC

expression == 
    [
        \* To hide variables of the `Concurrent` spec from the error trace,
        \* remove the variables below.  The trace will be written in the order
        \* of the fields of this record.
        shared |-> shared
        ,pc |-> pc
        ,tmp |-> tmp
        ,loc |-> loc
        
        \* Put additional constant-, state-, and action-level expressions here:
        \* ,_stateNumber |-> _TEPosition
        \* ,_sharedUnchanged |-> shared = shared'
        
        \* Format the `shared` variable as Json value.
        \* ,_sharedJson |->
        \*     LET J == INSTANCE Json
        \*     IN J!ToJson(shared)
        
        \* Lastly, you may build expressions over arbitrary sets of states by
        \* leveraging the _TETrace operator.  For example, this is how to
        \* count the number of times a spec variable changed up to the current
        \* state in the trace.
        \* ,_sharedModCount |->
        \*     LET F[s \in DOMAIN _TETrace] ==
        \*         IF s = 1 THEN 0
        \*         ELSE IF _TETrace[s].shared # _TETrace[s-1].shared
        \*             THEN 1 + F[s-1] ELSE F[s-1]
        \*     IN F[_TEPosition - 1]
    ]

=============================================================================



Parsing and semantic processing can take forever if the trace below is long.
 In this case, it is advised to uncomment the module below to deserialize the
 trace from a generated binary file.

\*
\*---- MODULE Concurrent_TETrace ----
\*EXTENDS IOUtils, Concurrent, TLC
\*
\*trace == IODeserialize("Concurrent_TTrace_1790853111.bin", TRUE)
\*
\*=============================================================================
\*

---- MODULE Concurrent_TETrace ----
EXTENDS Concurrent, TLC

trace == 
    <<
    ([shared |-> 0,loc |-> <<0, 0, 0>>,pc |-> <<0, 0, 0>>,tmp |-> <<"idle", "idle", "idle">>]),
    ([shared |-> 21,loc |-> <<0, 0, 0>>,pc |-> <<0, 0, 0>>,tmp |-> <<"idle", "parked", "idle">>]),
    ([shared |-> 11,loc |-> <<0, 0, 0>>,pc |-> <<0, 0, 0>>,tmp |-> <<"parked", "parked", "idle">>]),
    ([shared |-> 11,loc |-> <<0, 11, 0>>,pc |-> <<0, 1, 0>>,tmp |-> <<"parked", "idle", "idle">>])
    >>
----


=============================================================================

---- CONFIG Concurrent_TTrace_1790853111 ----
CONSTANTS
    N = 3
    K = 3
    G_Isolated = FALSE

INVARIANT
    _inv

CHECK_DEADLOCK
    \* CHECK_DEADLOCK off because of PROPERTY or INVARIANT above.
    FALSE

INIT
    _init

NEXT
    _next

CONSTANT
    _TETrace <- _trace

ALIAS
    _expression
=============================================================================
\* Generated on Thu Oct 01 11:11:52 UTC 2026