package main

import (
	"sort"
	"strings"

	"github.com/prometheus/client_golang/prometheus"
	dto "github.com/prometheus/client_model/go"
)

// gatherMetrics flattens the default registry's bmc_* counters, gauges and
// histogram counts into name{label=value,...} -> integer.
func gatherMetrics() M {
	out := M{}
	mfs, err := prometheus.DefaultGatherer.Gather()
	if err != nil {
		out["error"] = err.Error()
		return out
	}
	for _, mf := range mfs {
		if !strings.HasPrefix(mf.GetName(), "bmc_") {
			continue
		}
		for _, mm := range mf.GetMetric() {
			var ls []string
			for _, lp := range mm.GetLabel() {
				v := lp.GetValue()
				if i := strings.IndexByte(v, '('); lp.GetName() == "code" && i > 0 && strings.HasSuffix(v, ")") {
					v = v[:i] // "0xc0(Node Busy)" -> "0xc0": descriptions are presentation, not accounting
				}
				ls = append(ls, lp.GetName()+"="+v)
			}
			sort.Strings(ls)
			key := mf.GetName()
			if len(ls) > 0 {
				key += "{" + strings.Join(ls, ",") + "}"
			}
			switch mf.GetType() {
			case dto.MetricType_COUNTER:
				out[key] = int(mm.GetCounter().GetValue())
			case dto.MetricType_GAUGE:
				out[key] = int(mm.GetGauge().GetValue())
			case dto.MetricType_HISTOGRAM:
				out[key+"_count"] = int(mm.GetHistogram().GetSampleCount())
			}
		}
	}
	return out
}
