----------------------------- MODULE GenConsole -----------------------------
(* Script generation from the Console state machine.  Every terminal behaviour
   of Console (all MaxCalls calls returned) is concretised: each abstract
   environment outcome becomes a reply *term* built with Wire/Crypto, bound to
   the actual request through named captures.  The model's predicted
   observations (`sent`, `results`) travel with the script as its `abstract`
   part, so the trace specification can compare the real execution with them. *)
EXTENDS Console, Crypto, Json

CONSTANTS AuthNum, IntegNum        \* suite under test (wire numbers); confidentiality is AES-CBC-128

AuthOf(n)  == CHOOSE a \in AuthAlgs : a.num = n
IntegOf(n) == CHOOSE a \in IntegAlgs : a.num = n
S == [authAlg |-> AuthOf(AuthNum).alg, integAlg |-> IntegOf(IntegNum).alg,
      authNum |-> AuthNum, integNum |-> IntegNum, confNum |-> 1,
      icvLen |-> AuthOf(AuthNum).icv, integLen |-> IntegOf(IntegNum).len,
      uname |-> <<114, 111, 111, 116>>, pw |-> <<99, 97, 108, 118, 105, 110>>, kg |-> <<>>,
      priv |-> 4, lookup |-> TRUE, bmcSid |-> <<17, 34, 51, 68>>,
      rc |-> [i \in 1..16 |-> (i * 11 + 3) % 256], guid |-> [i \in 1..16 |-> (100 + i) % 256]]

\* ------------------------------------------------------------------ commands
\* A: Get Device ID (App 06h/01h), marker = device ID byte
\* B: Get System GUID (App 06h/37h), marker = first GUID byte
\* R: a raw Storage (0Ah) command 10h with one request byte, marker = first response byte
CmdInfo(c) ==
  CASE c = "A" -> [api |-> "Cmd", cmd |-> "GetDeviceID", netfn |-> 6, num |-> 1, body |-> <<>>]
    [] c = "B" -> [api |-> "Cmd", cmd |-> "GetSystemGUID", netfn |-> 6, num |-> 55, body |-> <<>>]
    [] c = "R" -> [api |-> "Raw", cmd |-> "Raw", netfn |-> 10, num |-> 16, body |-> <<7>>]
    \* Q: the same command number 10h under another network function (Sensor/Event 04h)
    [] c = "Q" -> [api |-> "Raw", cmd |-> "Raw", netfn |-> 4, num |-> 16, body |-> <<9>>]
    \* C: Chassis Control (Chassis 00h/02h, power down): the response has no body, so nothing but the message header
    \* (network function, command) and the completion code ties a reply to the request
    [] c = "C" -> [api |-> "Cmd", cmd |-> "ChassisControl", netfn |-> 0, num |-> 2, body |-> <<0>>]
    \* X: Set Session Privilege Level with the reserved level 01h: the request layer refuses to serialise it (22.18)
    [] c = "X" -> [api |-> "Cmd", cmd |-> "SetSessionPrivilegeLevel", netfn |-> 6, num |-> 59, body |-> <<1>>, args |-> [Req |-> [PrivilegeLevel |-> 1]]]
    \* G, H: two Group Extension (2Ch) commands with the DCMI body code DCh (02h Get Power Reading, 07h Get DCMI Sensor Info numbers)
    [] c = "G" -> [api |-> "Raw", cmd |-> "Raw", netfn |-> 44, num |-> 2, body |-> <<1, 0, 0>>, group |-> 220]
    [] c = "H" -> [api |-> "Raw", cmd |-> "Raw", netfn |-> 44, num |-> 7, body |-> <<1, 64, 0, 1>>, group |-> 220]
CcByte(cc) == CASE cc = "ok" -> 0 [] cc = "err" -> 193 [] cc = "busy" -> 192 [] cc = "tmo" -> 195
\* 13.8: the response echoes the requester's sequence number / LUN byte of the request it answers (the library is free
\* in its choice of sequence numbers; a BMC is not): taken from the request as received - decrypted, inside a session
SeqEcho == IF InSession THEN EchoS ELSE EchoN
MsgFor(c, ccb, body) ==
  LET h1 == <<129, (CmdInfo(c).netfn + 1) * 4>>
      h2 == Cat(<< B(<<32>>), SeqEcho, B(<<CmdInfo(c).num, ccb>> \o body) >>)
  IN  Cat(<< B(h1 \o <<Checksum(h1)>>), h2, Cksum(h2) >>)
BodyBytes(c, mk)  == CASE c = "A" -> <<mk, 129, 2, 21, 2, 191, 162, 2, 0, 52, 18>>
                       [] c = "B" -> <<mk>> \o [i \in 1..15 |-> 200 + i]
                       [] c = "R" -> <<mk, 1, 2, 3>>
                       [] c = "Q" -> <<mk, 4, 5>>
                       [] c = "C" -> <<>>
                       [] c = "X" -> <<mk % 16>>
                       [] c = "G" -> <<220, mk, 9, 9>>
                       [] c = "H" -> <<220, mk, 0>>
Marker(call, n) == call * 16 + n
Iv(k) == [i \in 1..16 |-> (i * 13 + k * 29) % 256]
Seq4(call, n) == LE32s(call * 8 + n)

Attrs(d, mk) == [forCmd |-> d.forCmd, cc |-> d.cc, dec |-> d.dec, sig |-> d.sig, flag |-> d.flag, sid |-> d.sid,
                 bodyOK |-> d.bodyOK, call |-> d.call, n |-> d.n, kind |-> d.kind, mk |-> mk]

BadPadBytes(n) == LET p == IF ConfPadLen(n) = 0 THEN 16 ELSE ConfPadLen(n) IN Repeat(238, p) \o <<p>>

\* one datagram term for abstract datagram d
Dgram(d) ==
  LET c == d.forCmd   mk == Marker(d.call, d.n)   sq == Seq4(d.call, d.n)   iv == Iv(d.call * 8 + d.n)
      grp == IF "group" \in DOMAIN CmdInfo(c) THEN <<CmdInfo(c).group>> ELSE <<>>
      body == IF d.cc # "ok" THEN grp ELSE IF d.kind # "trunc" THEN BodyBytes(c, mk) ELSE <<mk, 129, 2>>
      msg == MsgFor(c, CcByte(d.cc), body)
  IN IF ~InSession
     THEN IF d.kind = "garbage"
          THEN CASE (d.call + d.n) % 8 = 4 -> B(<<6, 0, 255>>)                                                \* shorter than an RMCP header
                 [] (d.call + d.n) % 4 = 0 -> B(<<6, 0, 255, 7, 6, 0, 1, 2>>)                                  \* too short
                 [] (d.call + d.n) % 4 = 3 -> B(<<6, 0, 255, 6, 0, 0, 17, 190, 64, 0, 0, 16, 0, 0, 17, 190, 0, 0, 0, 0, 129, 0, 0, 0, 0, 0, 0, 0>>)  \* ASF presence pong
                 [] (d.call + d.n) % 4 = 1 -> AddByte(NullWrapper(0, msg), 18, 1)                              \* checksum 1 wrong
                 [] OTHER -> AddByte(NullWrapper(0, msg), -1, 1)                    \* checksum 2 wrong
          ELSE NullWrapper(0, msg)
     ELSE CASE d.kind = "garbage" ->
                 (CASE (d.call + d.n) % 7 = 3 -> B(<<>>)                                               \* an empty datagram
                    [] (d.call + d.n) % 7 = 5 -> B(<<6, 0>>)                                              \* shorter than an RMCP header
                    [] (d.call + d.n) % 7 = 6 -> B(<<7, 0, 255, 7>>)                                      \* not RMCP version 1
                    [] (d.call + d.n) % 3 = 0 -> B(<<6, 0, 255, 7, 6, 192, 1, 2, 3>>)
                    [] (d.call + d.n) % 3 = 1 -> Trunc(SessPacket(S, sq, msg, iv), 30)
                    [] OTHER -> SessPacket(S, sq, AddByte(msg, 2, 1), iv))
            [] d.kind = "badsig"   -> SessPacketWith(S, 192, Var("sidM"), sq, msg, iv, B(Repeat(7, 20)), Ref("K2"))
            [] d.kind = "unauth"   -> NullWrapper(0, msg)
            \* unencrypted, unauthenticated IPMI payload carrying this session's ID and a plausible sequence number
            [] d.kind = "unauthmine" -> Cat(<< Rmcp, B(<<6, 0>>), Var("sidM"), B(sq), Len16(msg), msg >>)
            [] d.kind = "wrongsid" -> SessPacketWith(S, 192, B(<<9, 9, 9, 9>>), sq, msg, iv, Ref("K1"), Ref("K2"))
            [] d.kind = "badpad"   ->
                 LET pl == Cat(<< B(iv), Aes(Ref("K2"), B(iv), Cat(<< msg, B(BadPadBytes(TLen(msg))) >>)) >>)
                     signed == IntegPadded(Cat(<< B(<<6, 192>>), Var("sidM"), B(sq), Len16(pl), pl >>))
                 IN  Cat(<< Rmcp, signed, Trunc(Hmac(S.integAlg, Ref("K1"), signed), S.integLen) >>)
            [] OTHER -> SessPacket(S, sq, msg, iv)

\* Outcome() reads cur/calls, which at emission time are those of the final state; rebuild from the history entry
OutcomeAt(e) ==
  LET c == e.cmd
      A(cmd, cc) == [forCmd |-> cmd, cc |-> cc, dec |-> TRUE, sig |-> TRUE, flag |-> TRUE,
                     sid |-> IF InSession THEN "mine" ELSE "null", bodyOK |-> (cc = "ok" \/ cmd \notin NeedsBody),
                     call |-> e.call, n |-> e.n, kind |-> "final"]
      o == e.o
  IN CASE o.kind = "final"    -> << <<A(c, o.cc)>>, <<>> >>
       [] o.kind = "trunc"    -> << <<[A(c, "ok") EXCEPT !.bodyOK = (c \notin NeedsBody), !.kind = "trunc"]>>, <<>> >>
       [] o.kind = "garbage"  -> << <<[A(c, "ok") EXCEPT !.dec = FALSE, !.sig = FALSE, !.kind = "garbage"]>>, <<>> >>
       [] o.kind = "lost"     -> << <<>>, <<>> >>
       [] o.kind = "xerr"     -> << <<>>, <<>> >>
       [] o.kind = "late"     -> << <<>>, <<[A(c, o.cc) EXCEPT !.kind = "late"]>> >>
       [] o.kind = "dup"      -> << <<A(c, o.cc)>>, <<[A(c, o.cc) EXCEPT !.kind = "dup"]>> >>
       [] o.kind = "stale"    -> << <<[A(o.other, o.cc) EXCEPT !.kind = "stale"]>>, <<>> >>
       [] o.kind = "badsig"   -> << <<[A(c, "ok") EXCEPT !.sig = FALSE, !.kind = "badsig"]>>, <<>> >>
       [] o.kind = "unauth"   -> << <<[A(c, "ok") EXCEPT !.sig = FALSE, !.flag = FALSE, !.sid = "null", !.kind = "unauth"]>>, <<>> >>
       [] o.kind = "unauthmine" -> << <<[A(c, "ok") EXCEPT !.sig = FALSE, !.flag = FALSE, !.kind = "unauthmine"]>>, <<>> >>
       [] o.kind = "wrongsid" -> << <<[A(c, "ok") EXCEPT !.sid = "other", !.kind = "wrongsid"]>>, <<>> >>
       [] o.kind = "badpad"   -> << <<[A(c, "ok") EXCEPT !.dec = FALSE, !.kind = "badpad"]>>, <<>> >>

React(e) ==
  LET out == OutcomeAt(e)
      now == [i \in 1..Len(out[1]) |-> [t |-> Dgram(out[1][i]), when |-> "now", attrs |-> Attrs(out[1][i], Marker(out[1][i].call, out[1][i].n))]]
      lat == [i \in 1..Len(out[2]) |-> [t |-> Dgram(out[2][i]), when |-> "late", attrs |-> Attrs(out[2][i], Marker(out[2][i].call, out[2][i].n))]]
  IN [k |-> "react", captures |-> <<>>, checks |-> <<>>, datagrams |-> now \o lat,
      fail |-> IF e.o.kind = "xerr" THEN "xerr" ELSE "none", cancel |-> e.cancel]

CallStep(e) ==
  LET ci == CmdInfo(e.cmd) IN
  IF ci.api = "Raw"
  THEN [k |-> "call", api |-> "Raw", label |-> e.cmd, target |-> IF InSession THEN "sess" ELSE "conn",
        args |-> IF "group" \in DOMAIN ci
                 THEN [netfn |-> ci.netfn, cmd |-> ci.num, lun |-> 0, body |-> ci.body, bodyCode |-> ci.group]
                 ELSE [netfn |-> ci.netfn, cmd |-> ci.num, lun |-> 0, body |-> ci.body]]
  ELSE [k |-> "call", api |-> "Cmd", cmd |-> ci.cmd, label |-> e.cmd, target |-> IF InSession THEN "sess" ELSE "conn"]
       @@ (IF "args" \in DOMAIN ci THEN [args |-> ci.args] ELSE <<>>)
Step(e) == IF e.k = "call" THEN CallStep(e) ELSE React(e)

Script(h) == [id |-> ToString(Len(h)) \o "-" \o ToString(TLCGet("distinct")),
              prefix |-> IF InSession THEN "hs" ELSE "", steps |-> [i \in 1..Len(h) |-> Step(h[i])],
              abstract |-> [insess |-> InSession, sent |-> sent, results |-> results]]
Header == [header |-> TRUE, family |-> "console",
           defs |-> SessionDefs(S), stable |-> <<"SIK", "K1", "K2">>,
           session |-> SessionRecipes(S),
           prefixes |-> [hs |-> HandshakeSteps(S)],
           suite |-> [authNum |-> AuthNum, integNum |-> IntegNum, integLen |-> S.integLen, bmcSid |-> S.bmcSid],
           cmds |-> [c \in Cmds |-> [netfn |-> CmdInfo(c).netfn, num |-> CmdInfo(c).num, body |-> CmdInfo(c).body,
                                      name |-> (CASE c = "A" -> "Get Device ID" [] c = "B" -> "Get System GUID" [] c = "C" -> "Chassis Control" [] c = "X" -> "Set Session Privilege Level" [] OTHER -> "Raw"),
                                      nobody |-> (c = "C"),
                                      wire |-> (IF "group" \in DOMAIN CmdInfo(c) THEN <<CmdInfo(c).group>> ELSE <<>>) \o CmdInfo(c).body]]]
ASSUME PrintT(<<"HEADER", ToJson(Header)>>)

Emit == (pc = "idle" /\ calls = MaxCalls) => PrintT(<<"SCRIPT", ToJson(Script(hist))>>)
=============================================================================
