-------------------------------- MODULE Fsr --------------------------------
(* Full Sensor Record body (IPMI v2.0 43.1, table 43-1, record bytes 6..48+N)
   and the ID string type/length byte (43.15).  r is a record of abstract
   values; FsrEnc gives the bytes after the 5-byte SDR header, FsrExpected the
   struct the library must decode them to. *)
EXTENDS Prims

\* ID string: [enc (0 unicode, 1 BCD plus, 2 packed 6-bit, 3 8-bit ASCII + Latin-1), vals]
\* vals: nibbles for BCD plus, 6-bit codes for packed ASCII, bytes otherwise
IdBytes(s) == CASE s.enc = 1 -> BcdPlusEnc(s.vals) [] s.enc = 2 -> Packed6Enc(s.vals) [] OTHER -> s.vals
IdChars(s) == CASE s.enc = 1 -> BcdPlusChars(s.vals) [] s.enc = 2 -> Packed6Chars(s.vals) [] OTHER -> Latin1Chars(s.vals)
\* type/length byte: bits 7:6 type, bit 5 reserved, bits 4:0 length (characters for the packed types, as the
\* library documents; bytes for the 8-bit types)
TypeLen(s) == s.enc * 64 + Len(s.vals)
\* reserved bits of the record (table 43-1): byte 7 [3:2], byte 24 [7], byte 31 [7:3], ID string type/length [5].
\* r.res = [lun (0..3), lin (0..1), flags (0..31), tl (0..1)]: a reader must ignore them
NoRes == [lun |-> 0, lin |-> 0, flags |-> 0, tl |-> 0]
AllRes == [lun |-> 3, lin |-> 1, flags |-> 31, tl |-> 1]

FsrEnc(r) ==
  << r.OwnerAddress, r.Channel * 16 + r.res.lun * 4 + r.OwnerLUN, r.Number, r.Entity,
     (IF r.IsContainerEntity THEN 128 ELSE 0) + r.Instance,
     r.init, (IF r.Ignore THEN 128 ELSE 0) + r.caps, r.SensorType, r.OutputType >>
  \o r.masks                                                                       \* 6 bytes: assertion, deassertion, reading masks
  \o << r.AnalogDataFormat * 64 + r.RateUnit * 8 + r.modUse * 2 + (IF r.IsPercentage THEN 1 ELSE 0),
        r.BaseUnit, r.ModifierUnit, r.res.lin * 128 + r.Linearisation,
        TwosEnc(10, r.M) % 256, (TwosEnc(10, r.M) \div 256) * 64 + r.Tolerance,
        TwosEnc(10, r.B) % 256, (TwosEnc(10, r.B) \div 256) * 64 + (TwosEnc(10, r.Accuracy) % 64),
        (TwosEnc(10, r.Accuracy) \div 64) * 16 + r.AccuracyExp * 4 + r.Direction,
        TwosEnc(4, r.RExp) * 16 + TwosEnc(4, r.BExp),
        r.res.flags * 8 + (IF r.NormalMinSpecified THEN 4 ELSE 0) + (IF r.NormalMaxSpecified THEN 2 ELSE 0) + (IF r.NominalReadingSpecified THEN 1 ELSE 0),
        r.NominalReading, r.NormalMax, r.NormalMin, r.SensorMax, r.SensorMin >>
  \o r.thresholds                                                                  \* 6 threshold bytes, 2 hysteresis, 2 reserved, 1 OEM
  \o << TypeLen(r.id) + r.res.tl * 32 >> \o IdBytes(r.id)
FsrFieldNames == {"OwnerAddress", "Channel", "OwnerLUN", "Number", "Entity", "IsContainerEntity", "Instance", "Ignore", "SensorType", "OutputType",
                  "AnalogDataFormat", "RateUnit", "IsPercentage", "BaseUnit", "ModifierUnit", "Linearisation", "M", "Tolerance", "B", "Accuracy",
                  "AccuracyExp", "Direction", "RExp", "BExp", "NormalMinSpecified", "NormalMaxSpecified", "NominalReadingSpecified",
                  "NominalReading", "NormalMax", "NormalMin", "SensorMax", "SensorMin"}
FsrExpected(r) == [n \in FsrFieldNames |-> r[n]] @@ [Identity |-> IdChars(r.id)]

FsrBase(k) == [OwnerAddress |-> 32, Channel |-> k % 16, OwnerLUN |-> k % 4, Number |-> (k * 37) % 256, Entity |-> (k * 3) % 256, IsContainerEntity |-> (k % 2) = 1,
               Instance |-> (k * 5) % 128, init |-> (k * 7) % 256, Ignore |-> (k % 3) = 0, caps |-> (k * 11) % 128, SensorType |-> 1 + (k % 12), OutputType |-> 1,
               masks |-> [i \in 1..6 |-> (k + i * 9) % 256], AnalogDataFormat |-> k % 3, RateUnit |-> k % 7, modUse |-> k % 3, IsPercentage |-> (k % 5) = 0,
               BaseUnit |-> 1 + (k % 90), ModifierUnit |-> (k * 2) % 90, Linearisation |-> 0, M |-> ((k * 13) % 1024) - 512, Tolerance |-> k % 64,
               B |-> ((k * 29) % 1024) - 512, Accuracy |-> ((k * 31) % 1024) - 512, AccuracyExp |-> k % 4, Direction |-> k % 3,
               RExp |-> (k % 16) - 8, BExp |-> ((k * 3) % 16) - 8, NormalMinSpecified |-> (k % 2) = 0, NormalMaxSpecified |-> (k % 3) = 0,
               NominalReadingSpecified |-> (k % 4) = 0, NominalReading |-> (k * 3) % 256, NormalMax |-> (k * 5) % 256, NormalMin |-> (k * 7) % 256,
               SensorMax |-> 255 - (k % 7), SensorMin |-> k % 9, thresholds |-> [i \in 1..11 |-> (k * 3 + i) % 256],
               id |-> [enc |-> 3, vals |-> <<67, 80, 85, 32, 84, 101, 109, 112>>], res |-> NoRes]
=============================================================================
