-------------------------------- MODULE Wire --------------------------------
(* RMCP / IPMI v2.0 envelope: encoders (as terms) and the one envelope parser.
   Transcribed from IPMI v2.0 rev 1.1: 13.1.3 (RMCP header), 13.6 (session
   wrapper), 13.8 (message), 13.28.4 (integrity pad, AuthCode range), 13.29
   (confidentiality header/trailer).  Requests' free choices (requester
   address, message sequence, console session ID, tags) are echoed, never
   asserted. *)
EXTENDS Terms

\* ---------------------------------------------------------------- encoders
RmcpBytes == <<6, 0, 255, 7>>                 \* version 6, reserved, seq 0xFF (no ACK), class IPMI
Rmcp == B(RmcpBytes)
\* v2.0 wrapper outside a session: auth type 6, payload type, sid 0, seq 0, length, payload
NullWrapper(ptype, payload) ==
  Cat(<< Rmcp, B(<<6, ptype, 0, 0, 0, 0, 0, 0, 0, 0>>), Len16(payload), payload >>)
NullWrapperBytes(ptype, payload) ==
  RmcpBytes \o <<6, ptype, 0, 0, 0, 0, 0, 0, 0, 0>> \o LE16(Len(payload)) \o payload

\* 13.8 IPMI message.  Response, BMC (0x20) -> console; rq fields echoed from the request.
MsgRspBytes(rqAddr, netfnRsp, rqLun, rqSeq, rsLun, cmd, cc, body) ==
  LET h1 == <<rqAddr, netfnRsp * 4 + rqLun>>
      h2 == <<32, rqSeq * 4 + rsLun, cmd, cc>> \o body
  IN  h1 \o <<Checksum(h1)>> \o h2 \o <<Checksum(h2)>>
\* the library always uses requester address 0x81, sequence 1, LUN 0
MsgRsp(netfnRsp, cmd, cc, body) == B(MsgRspBytes(129, netfnRsp, 0, 1, 0, cmd, cc, body))
MsgReqBytes(rsAddr, netfn, rsLun, rqAddr, rqSeq, rqLun, cmd, body) ==
  LET h1 == <<rsAddr, netfn * 4 + rsLun>>
      h2 == <<rqAddr, rqSeq * 4 + rqLun, cmd>> \o body
  IN  h1 \o <<Checksum(h1)>> \o h2 \o <<Checksum(h2)>>

\* 13.29 confidentiality trailer: 1,2,..,p then p, total a multiple of 16
ConfPadLen(n)  == 15 - (n % 16)
ConfPadBytes(n) == [i \in 1..ConfPadLen(n) |-> i] \o <<ConfPadLen(n)>>
ConfPadded(t)  == Cat(<< t, B(ConfPadBytes(TLen(t))) >>)
\* 13.28.4 integrity pad: 0xFF to make [auth type .. next header] a multiple of 4
IntegPadLen(n) == (4 - ((n + 2) % 4)) % 4
IntegPadded(t) == LET p == IntegPadLen(TLen(t)) IN Cat(<< t, B(Repeat(255, p) \o <<p, 7>>) >>)

\* ---------------------------------------------------------------- parsers
Reject(r) == [ok |-> FALSE, why |-> r]
\* 13.6 + 13.28.4.  authLen = AuthCode length of the negotiated integrity algorithm.
ParseWrapper(raw, authLen) ==
  IF Len(raw) < 16 THEN Reject("short")
  ELSE IF Sub(raw, 0, 4) # RmcpBytes THEN Reject("rmcp")
  ELSE IF raw[5] # 6 THEN Reject("authtype")
  ELSE LET flags == raw[6]
           enc == flags \div 128   auth == (flags \div 64) % 2   ptype == flags % 64
           sid == Sub(raw, 6, 10)  seq == Sub(raw, 10, 14)  plen == LE16v(Sub(raw, 14, 16))
       IN IF ptype = 2 THEN Reject("oem")
          ELSE IF Len(raw) < 16 + plen THEN Reject("payload-short")
          ELSE LET payload == Sub(raw, 16, 16 + plen)
                   rest == Sub(raw, 16 + plen, Len(raw))
               IN IF auth = 0
                  THEN IF rest = <<>> THEN [ok |-> TRUE, enc |-> enc, auth |-> 0, ptype |-> ptype, sid |-> sid,
                                             seq |-> seq, payload |-> payload, plen |-> plen]
                       ELSE Reject("trailing-bytes")
                  ELSE LET pad == IntegPadLen(12 + plen)
                       IN IF Len(rest) # pad + 2 + authLen THEN Reject("trailer-length")
                          ELSE IF Sub(rest, 0, pad) # Repeat(255, pad) THEN Reject("pad-bytes")
                          ELSE IF rest[pad + 1] # pad THEN Reject("pad-length")
                          ELSE IF rest[pad + 2] # 7 THEN Reject("next-header")
                          ELSE [ok |-> TRUE, enc |-> enc, auth |-> 1, ptype |-> ptype, sid |-> sid,
                                seq |-> seq, payload |-> payload, plen |-> plen]
\* 13.29: decrypted payload ends 1,2,..,n,n with n = ConfPadLen(message length)
StripConfPad(plain) ==
  IF plain = <<>> THEN Reject("empty")
  ELSE LET n == plain[Len(plain)] IN
       IF n > 15 \/ Len(plain) < n + 1 THEN Reject("padlen")
       ELSE IF Sub(plain, Len(plain) - 1 - n, Len(plain) - 1) # [i \in 1..n |-> i] THEN Reject("padbytes")
       ELSE IF Len(plain) % 16 # 0 THEN Reject("not-block-multiple")
       ELSE [ok |-> TRUE, msg |-> Sub(plain, 0, Len(plain) - 1 - n), n |-> n]
\* 13.8 request message
ParseReqMsg(mm) ==
  IF Len(mm) < 7 THEN Reject("msg-short")
  ELSE IF mm[3] # Checksum(Sub(mm, 0, 2)) THEN Reject("csum1")
  ELSE IF mm[Len(mm)] # Checksum(Sub(mm, 3, Len(mm) - 1)) THEN Reject("csum2")
  ELSE [ok |-> TRUE, rsAddr |-> mm[1], netfn |-> mm[2] \div 4, rsLun |-> mm[2] % 4,
        rqAddr |-> mm[4], rqSeq |-> mm[5] \div 4, rqLun |-> mm[5] % 4, cmd |-> mm[6], data |-> Sub(mm, 6, Len(mm) - 1)]
=============================================================================
