package main

import (
	"bufio"
	"encoding/json"
	"flag"
	"fmt"
	"os"
	"os/exec"
	"sync"
	"time"
)

func readNdjson(path string) (hdr M, items []M) {
	f, err := os.Open(path)
	if err != nil {
		fmt.Fprintln(os.Stderr, "harness:", err)
		os.Exit(2)
	}
	defer f.Close()
	rd := bufio.NewReaderSize(f, 1<<20)
	for {
		line, err := rd.ReadBytes('\n')
		if len(line) > 1 {
			var v M
			if e := json.Unmarshal(line, &v); e != nil {
				fmt.Fprintln(os.Stderr, "harness: bad json:", e)
				os.Exit(2)
			}
			if v["header"] == true {
				hdr = v
			} else {
				items = append(items, v)
			}
		}
		if err != nil {
			break
		}
	}
	if hdr == nil {
		hdr = M{}
	}
	return
}

func cmdReplay(args []string) {
	fs := flag.NewFlagSet("replay", flag.ExitOnError)
	in := fs.String("in", "", "scripts ndjson (header line + one script per line)")
	out := fs.String("out", "trace.ndjson", "trace output (ndjson)")
	workers := fs.Int("workers", 16, "parallel scripts")
	wdog := fs.Int("watchdog", 10000, "per-call watchdog in ms")
	shard := fs.Int("shard", 0, "max events per output file (0 = single file); files are out.N")
	mflag := fs.Bool("metrics", false, "snapshot the Prometheus registry after every call (use with -workers 1)")
	isolate := fs.Bool("isolate", false, "run every script in a process of its own (a workload run alone: no other connection has ever existed in the process)")
	fs.Parse(args)
	metricsMode = *mflag
	hdr, scripts := readNdjson(*in)
	traces := make([][]M, len(scripts))
	childRaced := false
	var mu sync.Mutex
	runIsolated := func(i int) []M {
		src := fmt.Sprintf("%s.iso%d.in", *out, i)
		dst := fmt.Sprintf("%s.iso%d.out", *out, i)
		defer os.Remove(src)
		defer os.Remove(dst)
		f, err := os.Create(src)
		if err != nil {
			return []M{{"ev": "harnessError", "text": err.Error()}}
		}
		hb, _ := json.Marshal(hdr)
		sb, _ := json.Marshal(scripts[i])
		f.Write(hb)
		f.Write([]byte("\n"))
		f.Write(sb)
		f.Write([]byte("\n"))
		f.Close()
		cmd := exec.Command(os.Args[0], "replay", "-in", src, "-out", dst, "-workers", "1", "-watchdog", fmt.Sprint(*wdog))
		cmd.Stderr = os.Stderr
		if err := cmd.Run(); err != nil {
			if ee, ok := err.(*exec.ExitError); ok && ee.ExitCode() == 66 {
				mu.Lock()
				childRaced = true
				mu.Unlock()
			} else {
				return []M{{"ev": "harnessError", "text": "isolated run: " + err.Error()}}
			}
		}
		_, evs := readNdjson(dst)
		return evs
	}
	var wg sync.WaitGroup
	ch := make(chan int)
	for w := 0; w < *workers; w++ {
		wg.Add(1)
		go func() {
			defer wg.Done()
			for i := range ch {
				if *isolate {
					traces[i] = runIsolated(i)
					continue
				}
				traces[i] = runScript(hdr, scripts[i], time.Duration(*wdog)*time.Millisecond)
			}
		}()
	}
	t0 := time.Now()
	for i := range scripts {
		ch <- i
	}
	close(ch)
	wg.Wait()
	n, files := writeTraces(traces, *out, *shard)
	fmt.Printf("{\"scripts\":%d,\"events\":%d,\"files\":%d,\"elapsed_ms\":%d}\n", len(scripts), n, files, time.Since(t0).Milliseconds())
	if childRaced {
		os.Exit(66)
	}
}

// scrub replaces JSON nulls (nil values, nil slices and maps) by values TLC's JSON module can read.
func scrub(v any) any {
	switch x := v.(type) {
	case nil:
		return "nil"
	case map[string]any:
		if x == nil {
			return map[string]any{}
		}
		for k, e := range x {
			x[k] = scrub(e)
		}
		return x
	case []any:
		if x == nil {
			return []any{}
		}
		for i, e := range x {
			x[i] = scrub(e)
		}
		return x
	case []M:
		out := make([]any, len(x))
		for i, e := range x {
			out[i] = scrub(e)
		}
		return out
	case []int:
		if x == nil {
			return []int{}
		}
	}
	return v
}

func writeTraces(traces [][]M, out string, shard int) (events, files int) {
	var w *bufio.Writer
	var f *os.File
	cur := 0
	open := func() {
		name := out
		if shard > 0 {
			name = fmt.Sprintf("%s.%d", out, files)
		}
		var err error
		f, err = os.Create(name)
		if err != nil {
			fmt.Fprintln(os.Stderr, "harness:", err)
			os.Exit(2)
		}
		w = bufio.NewWriterSize(f, 1<<20)
		files++
		cur = 0
	}
	closef := func() {
		w.Flush()
		f.Close()
	}
	open()
	for i, tr := range traces {
		if shard > 0 && cur > 0 && cur+len(tr) > shard {
			closef()
			open()
		}
		for _, ev := range tr {
			ev["script"] = i
			b, err := json.Marshal(scrub(ev))
			if err != nil {
				b, _ = json.Marshal(M{"ev": "harnessError", "text": err.Error(), "script": i})
			}
			w.Write(b)
			w.WriteByte('\n')
			events++
			cur++
		}
	}
	closef()
	return
}

func main() {
	if len(os.Args) < 2 {
		fmt.Fprintln(os.Stderr, "usage: bmcreplay replay|vectors|udp|conc ...")
		os.Exit(2)
	}
	switch os.Args[1] {
	case "replay":
		cmdReplay(os.Args[2:])
	default:
		if f, ok := subcommands[os.Args[1]]; ok {
			f(os.Args[2:])
			return
		}
		fmt.Fprintln(os.Stderr, "unknown subcommand", os.Args[1])
		os.Exit(2)
	}
}

var subcommands = map[string]func([]string){}
