---------------------------- MODULE GenHandshake ----------------------------
(* Scenario generation for session establishment (C01, C02, C12 and the
   handshake parts of C05, C06, C09, C10).  The simulated BMC is the RAKP
   specification of Crypto.tla; scenarios are data (credentials, algorithms,
   randoms) x one mutation of an otherwise honest transcript, so this module is
   evaluated, not explored: one ASSUME prints every script.

   Byte contents are pseudo-random functions of Seed; every finite dimension the
   properties name (suites, lengths, privilege, lookup, KG, bit positions,
   status codes, tags, truncation lengths, algorithm triples) is enumerated. *)
EXTENDS Crypto, Json, TLC, FiniteSets, LifecycleOps

CONSTANTS Seed, Family, Tier

Rnd(k, i) == ((k + 3) * 7919 + (i + 1) * 104729 + (Seed + 1) * 1299709 + (k * i) * 31) % 256
RBytes(k, n) == [i \in 1..n |-> Rnd(k, i)]
Printable(k, n) == [i \in 1..n |-> 33 + (Rnd(k, i) % 94)]

AuthRec(n)  == IF n = 0 THEN [num |-> 0, alg |-> "none", icv |-> 0] ELSE CHOOSE a \in AuthAlgs : a.num = n
IntegRec(n) == IF n \in {1, 2, 4} THEN CHOOSE a \in IntegAlgs : a.num = n ELSE [num |-> n, alg |-> "none", len |-> 0]

\* scenario: k = index used for byte contents
Scn(k, an, inum, cn, ulen, plen, kgOn, priv, lookup) ==
  [authAlg |-> AuthRec(an).alg, integAlg |-> IntegRec(inum).alg, authNum |-> an, integNum |-> inum, confNum |-> cn,
   icvLen |-> AuthRec(an).icv, integLen |-> IntegRec(inum).len,
   uname |-> Printable(k, ulen), pw |-> RBytes(k + 1000, plen), kg |-> IF kgOn THEN RBytes(k + 2000, 20) ELSE <<>>,
   priv |-> priv, lookup |-> lookup,
   bmcSid |-> <<1 + (Rnd(k, 50) % 255), Rnd(k, 51), Rnd(k, 52), Rnd(k, 53)>>,
   rc |-> RBytes(k + 3000, 16), guid |-> RBytes(k + 4000, 16), k |-> k]

SupportedSuites == {<<a, i>> : a \in {1, 2, 3}, i \in {1, 2, 4}}
SetToSuite(q) == << 1 + (q % 3), <<1, 2, 4>>[1 + ((q \div 3) % 3)] >>

\* ------------------------------------------------------- in-session commands
Iv(k) == [i \in 1..16 |-> (i * 13 + k * 29) % 256]
\* a raw command with a request body of length L (all residues mod 4 and mod 16 over 0..40)
RawBody(k, L) == [i \in 1..L |-> (k + i * 7) % 256]
RawRspData(k, L) == [i \in 1..(1 + (L % 9)) |-> (k * 3 + i) % 256]
RawCall(S, j, L) ==
  [k |-> "call", api |-> "Raw", label |-> "raw", target |-> "sess",
   args |-> [netfn |-> 10, cmd |-> 16 + (j % 3), lun |-> 0, body |-> RawBody(S.k + j, L)],
   exp |-> [outcome |-> "value", code |-> 0, data |-> RawRspData(S.k + j, L),
            netfn |-> 10, cmd |-> 16 + (j % 3), body |-> RawBody(S.k + j, L), seq |-> j]]
RawReact(S, j, L) ==
  [React0 EXCEPT !.datagrams = << Dg(SessPacket(S, LE32s(j), MsgRspE(EchoS, 11, 0, 16 + (j % 3), 0, RawRspData(S.k + j, L)), Iv(S.k + j)),
                                     [kind |-> "rawrsp", valid |-> TRUE, code |-> 0]) >>]
Commands(S, lens) == Flatten([j \in 1..Len(lens) |-> << RawCall(S, j, lens[j]), RawReact(S, j, lens[j]) >>])

\* ------------------------------------------------------------ script pieces
NewSessionCall(S, exp) ==
  [CallNewV2Session(S) EXCEPT !.args = @] @@ [label |-> "open", exp |-> exp]
ExpSession(S) == [outcome |-> "session", bmcSid |-> S.bmcSid, authNum |-> S.authNum, integNum |-> S.integNum, confNum |-> S.confNum,
                  priv |-> S.priv, lookup |-> S.lookup, uname |-> S.uname]
ExpErr(S, cls) == [ExpSession(S) EXCEPT !.outcome = cls]
Recipes(S) == IF S.integLen > 0 /\ S.confNum = 1 THEN SessionRecipes(S) ELSE [none |-> Eq(B(<<>>), B(<<>>))]
ScriptOf(id, fam, S, steps, info) ==
  [id |-> id, steps |-> steps, defs |-> SessionDefs(S), session |-> Recipes(S),
   info |-> info @@ [family |-> fam, integLen |-> S.integLen, bmcSid |-> S.bmcSid]]

\* honest handshake, then commands
Honest(id, S, lens) ==
  ScriptOf(id, "honest", S,
           << NewSessionCall(S, ExpSession(S)), HonestOsr(S), HonestRakp2(S), HonestRakp4(S), ExpectSession(S) >>
           \o Commands(S, lens), [mut |-> "none"])

\* ------------------------------------------------------------- mutations
\* BMC-side scenario with a different password / KG
WrongPw(S) == [S EXCEPT !.pw = IF S.pw = <<>> THEN <<120>> ELSE [S.pw EXCEPT ![1] = (@ + 1) % 256]]
WrongKg(S) == [S EXCEPT !.kg = [S.kg EXCEPT ![20] = (@ + 1) % 256]]
WithDg(r, t) == [r EXCEPT !.datagrams = << Dg(t, [kind |-> "mutated"]) >>]
OsrDg(S) == NullWrapper(17, OpenSessionRspT(S))
R2Dg(S)  == NullWrapper(19, Rakp2T(S))
R4Dg(S)  == NullWrapper(21, Rakp4T(S))
\* payload offsets inside the datagram (RMCP 4 + wrapper 12 = 16)
OsrLen == 16 + 36
R2Len(S) == 16 + 40 + DigestLen(S.authAlg)
R4Len(S) == 16 + 8 + S.icvLen
\* a reply whose payload is cut to n bytes *with a consistent length field* (the BMC really sent a short message)
ShortPayload(ptype, payloadTerm, n) == NullWrapper(ptype, Trunc(payloadTerm, n))
\* the last reaction of a script that cannot end otherwise expires the context
Cancelling(r) == r @@ [cancel |-> TRUE]

\* leg: 1 = Open Session Response, 2 = RAKP 2, 3 = RAKP 4.  f transforms the honest datagram of that leg.
MutatedH(id, S, SB, leg, dgram, expcls, mutname, twice, honestSid) ==
  LET r1 == IF leg = 1 THEN WithDg(HonestOsr(SB), dgram) ELSE HonestOsr(SB)
      r2 == IF leg = 2 THEN WithDg(HonestRakp2(SB), dgram) ELSE HonestRakp2(SB)
      r3 == IF leg = 3 THEN WithDg(HonestRakp4(SB), dgram) ELSE HonestRakp4(SB)
      \* an undecodable reply is retried: answer the retransmission the same way and expire the context
      rs == IF ~twice THEN <<r1, r2, r3>>
            ELSE IF leg = 1 THEN <<r1, Cancelling(r1)>>
            ELSE IF leg = 2 THEN <<r1, r2, Cancelling(r2)>>
            ELSE <<r1, r2, r3, Cancelling(r3)>>
  IN ScriptOf(id, "mutate", S, << NewSessionCall(S, ExpErr(S, expcls)) >> \o rs \o << ExpectSession(SB) >>,
              [mut |-> mutname, leg |-> leg, honestSid |-> honestSid])

Mutated(id, S, SB, leg, dgram, expcls, mutname, twice) == MutatedH(id, S, SB, leg, dgram, expcls, mutname, twice, TRUE)

BitFlips(id0, S, leg, base, fromByte, toByte, expcls, name) ==
  { MutatedH(id0 \o name \o "-" \o ToString(b), S, S, leg, Flip(base, b), expcls, name, FALSE, name # "osrsidC")
      : b \in (fromByte * 8)..(toByte * 8 - 1) }

MutationsFor(S, id0, full) ==
  LET pick(set) == IF full THEN set ELSE {x \in set : x % 29 = (Seed + S.k) % 29}
      stat == pick(1..255)
      osr == OsrDg(S)  r2 == R2Dg(S)  r4 == R4Dg(S)
  IN  { Mutated(id0 \o "wrongpw", S, WrongPw(S), 2, R2Dg(WrongPw(S)), "ErrIncorrectPassword", "wrongPw", FALSE) }
      \cup (IF S.kg # <<>> THEN { Mutated(id0 \o "wrongkg", S, WrongKg(S), 3, R4Dg(WrongKg(S)), "error", "wrongKg", FALSE) } ELSE {})
      \* RAKP 2: console session ID echo [20,24), BMC random [24,40), GUID [40,56), AuthCode [56, end)
      \cup BitFlips(id0, S, 2, r2, 20, 24, "ErrIncorrectPassword", "r2sidM")
      \cup BitFlips(id0, S, 2, r2, 24, 40, "ErrIncorrectPassword", "r2rc")
      \cup BitFlips(id0, S, 2, r2, 40, 56, "ErrIncorrectPassword", "r2guid")
      \cup BitFlips(id0, S, 2, r2, 56, R2Len(S), "ErrIncorrectPassword", "r2auth")
      \* Open Session Response: BMC session ID [24,28)
      \cup BitFlips(id0, S, 1, osr, 24, 28, "ErrIncorrectPassword", "osrsidC")
      \* RAKP 4: ICV [24, end)
      \cup BitFlips(id0, S, 3, r4, 24, R4Len(S), "error", "r4icv")
      \* status codes 1..255 (byte 17) and every other tag (byte 16) on each reply
      \cup { Mutated(id0 \o "st1-" \o ToString(v), S, S, 1, SetByte(osr, 17, v), "error", "osr-status", FALSE) : v \in stat }
      \cup { Mutated(id0 \o "st2-" \o ToString(v), S, S, 2, SetByte(r2, 17, v), "error", "r2-status", FALSE) : v \in stat }
      \cup { Mutated(id0 \o "st3-" \o ToString(v), S, S, 3, SetByte(r4, 17, v), "error", "r4-status", FALSE) : v \in stat }
      \* the length byte of each algorithm payload of the Open Session Response (8 for every conforming BMC; 0 = wildcard
      \* in requests): whatever the library makes of another value, it is an answer, not a crash
      \cup { MutatedH(id0 \o "alen" \o ToString(off) \o "-" \o ToString(v), S, S, 1, SetByte(osr, 16 + off, v), "any", "osr-alg-length", FALSE, TRUE)
             : off \in {15, 23, 31}, v \in {0, 7, 9, 16, 36, 255} }
      \* tags: the library's tags are its own choice, so "another tag" = observed tag + delta
      \cup { Mutated(id0 \o "tg1-" \o ToString(v), S, S, 1, AddByte(osr, 16, v), "error", "osr-tag", FALSE) : v \in stat }
      \cup { Mutated(id0 \o "tg2-" \o ToString(v), S, S, 2, AddByte(r2, 16, v), "error", "r2-tag", FALSE) : v \in stat }
      \cup { Mutated(id0 \o "tg3-" \o ToString(v), S, S, 3, AddByte(r4, 16, v), "error", "r4-tag", FALSE) : v \in stat }
      \* truncation of the datagram at every length (undecodable wrapper => retried until the context expires)
      \cup { Mutated(id0 \o "tr1-" \o ToString(n), S, S, 1, Trunc(osr, n), "error", "osr-trunc", TRUE) : n \in 0..(OsrLen - 1) }
      \cup { Mutated(id0 \o "tr2-" \o ToString(n), S, S, 2, Trunc(r2, n), "error", "r2-trunc", TRUE) : n \in 0..(R2Len(S) - 1) }
      \cup { Mutated(id0 \o "tr3-" \o ToString(n), S, S, 3, Trunc(r4, n), "error", "r4-trunc", TRUE) : n \in 0..(R4Len(S) - 1) }
      \* a short message with a consistent length field (decodes at the wrapper, must fail in the payload layer)
      \cup { Mutated(id0 \o "sp1-" \o ToString(n), S, S, 1, ShortPayload(17, OpenSessionRspT(S), n), "error", "osr-short", FALSE) : n \in 0..35 }
      \cup { Mutated(id0 \o "sp2-" \o ToString(n), S, S, 2, ShortPayload(19, Rakp2T(S), n), "error", "r2-short", FALSE) : n \in 0..(39 + DigestLen(S.authAlg)) }
      \cup { Mutated(id0 \o "sp3-" \o ToString(n), S, S, 3, ShortPayload(21, Rakp4T(S), n), "error", "r4-short", FALSE) : n \in 0..(7 + S.icvLen) }

\* ------------------------------------------------- Open Session Response triples (C12)
AlgValues == {0, 1, 2, 3, 4, 48, 63}      \* None, the defined ones, OEM 0x30, unknown 0x3F
Triples(S, id0) ==
  { LET SB == [S EXCEPT !.authNum = t[1], !.integNum = t[2], !.confNum = t[3]]
        same == t = <<S.authNum, S.integNum, S.confNum>>
    IN  ScriptOf(id0 \o "-" \o ToString(t[1]) \o "-" \o ToString(t[2]) \o "-" \o ToString(t[3]), "triples", S,
                 << NewSessionCall(S, IF same THEN ExpSession(S) ELSE ExpErr(S, "anyerror")),
                    WithDg(HonestOsr(S), NullWrapper(17, OpenSessionRspT(SB))), HonestRakp2(S), HonestRakp4(S), ExpectSession(S) >>,
                 [mut |-> IF same THEN "none" ELSE "triple", triple |-> t])
      : t \in AlgValues \X AlgValues \X (AlgValues \ {2, 3, 4}) }

\* the caller itself pins a suite the library does not implement (None, unassigned, OEM numbers) and the BMC confirms
\* exactly that: an error, whatever the numbers - never a session, never a crash
OddProposals(S, id0) ==
  { LET SB == [S EXCEPT !.authNum = t[1], !.integNum = t[2], !.confNum = t[3]]
    IN  ScriptOf(id0 \o "-odd-" \o ToString(t[1]) \o "-" \o ToString(t[2]) \o "-" \o ToString(t[3]), "triples", SB,
                 << NewSessionCall(SB, ExpErr(SB, "anyerror")),
                    WithDg(HonestOsr(S), NullWrapper(17, OpenSessionRspT(SB))), HonestRakp2(S), HonestRakp4(S), ExpectSession(S) >>,
                 [mut |-> "odd-proposal", triple |-> t])
      : t \in { x \in (AlgValues \cup {5, 6, 255}) \X (AlgValues \cup {5, 255}) \X (AlgValues \cup {5, 255}) :
                 x[1] \notin {1, 2, 3} \/ x[2] \notin {1, 2, 4} \/ x[3] # 1 } }

\* ----------------------------------------------- retried handshake legs (C10, C09)
RetryKinds == {"lost", "garbage", "stamped"}
Garbage == [React0 EXCEPT !.datagrams = << Dg(B(<<6, 0, 255, 7, 6, 17, 1>>), [kind |-> "garbage"]) >>]
Lost == React0
\* a well-formed session-less IPMI message (a late Get Channel Authentication Capabilities reply from the probing that
\* precedes a session): not an answer to a set-up payload, so the payload is sent again
StrayMsg == [React0 EXCEPT !.datagrams = << Dg(NullWrapper(0, B(MsgRspBytes(129, 7, 0, 1, 0, 56, 0, <<1, 151, 4, 2, 0, 0, 0, 0>>))), [kind |-> "stray-message"]) >>]
LegRetry(id, S, leg, seqn) ==
  LET pre(k) == [i \in 1..Len(seqn) |-> IF seqn[i] = "lost" THEN Lost ELSE IF seqn[i] = "stray" THEN StrayMsg ELSE Garbage]
      l1 == (IF leg = 1 THEN pre(1) ELSE <<>>) \o <<HonestOsr(S)>>
      l2 == (IF leg = 2 THEN pre(2) ELSE <<>>) \o <<HonestRakp2(S)>>
      l3 == (IF leg = 3 THEN pre(3) ELSE <<>>) \o <<HonestRakp4(S)>>
  IN ScriptOf(id, "retry", S, << NewSessionCall(S, ExpSession(S)) >> \o l1 \o l2 \o l3 \o << ExpectSession(S) >> \o Commands(S, <<3>>),
              [mut |-> "none", retryLeg |-> leg, retries |-> Len(seqn)])
\* replies stamped with a non-null session header (session ID / sequence): legal for the library to ignore,
\* and the next session-less request must still carry the null session
Stamped(ptype, payload) == Cat(<< Rmcp, B(<<6, ptype, 7, 0, 0, 0, 9, 0, 0, 0>>), Len16(payload), payload >>)
StampedScript(id, S) ==
  ScriptOf(id, "retry", S,
           << NewSessionCall(S, ExpSession(S)),
              WithDg(HonestOsr(S), Stamped(17, OpenSessionRspT(S))), WithDg(HonestRakp2(S), Stamped(19, Rakp2T(S))),
              WithDg(HonestRakp4(S), Stamped(21, Rakp4T(S))), ExpectSession(S) >> \o Commands(S, <<5>>),
           [mut |-> "none", stamped |-> TRUE])

\* ---------------------------------------------------------------- families
Full == Tier = "thorough"
Lens(k) == << k % 41, (k * 7 + 3) % 41 >>
HonestSet ==
  LET suites == SupportedSuites
      \* per suite: every username length, every password length, every privilege x lookup x KG
      perSuite(a, i, base) ==
        { Honest("h-" \o ToString(a) \o "-" \o ToString(i) \o "-u" \o ToString(u), Scn(base + u, a, i, 1, u, (u * 5 + Seed) % 21, (u % 2) = 1, 1 + (u % 5), (u % 3) = 0), Lens(base + u)) : u \in 0..16 }
        \cup { Honest("h-" \o ToString(a) \o "-" \o ToString(i) \o "-p" \o ToString(p), Scn(base + 100 + p, a, i, 1, (p * 3 + Seed) % 17, p, (p % 2) = 0, (p % 6), (p % 2) = 1), Lens(base + 100 + p)) : p \in 0..20 }
        \cup { Honest("h-" \o ToString(a) \o "-" \o ToString(i) \o "-v" \o ToString(pr) \o (IF lk THEN "L" ELSE "N") \o (IF kg THEN "K" ELSE "P"),
                      Scn(base + 200 + pr * 4 + (IF lk THEN 2 ELSE 0) + (IF kg THEN 1 ELSE 0), a, i, 1, 5 + pr, 8 + pr, kg, pr, lk), Lens(base + 200 + pr))
               : pr \in 0..5, lk \in BOOLEAN, kg \in BOOLEAN }
        \* a BMC that grants less than was asked for, or leaves the level unspecified (0): RAKP 1 still carries what the caller asked for
        \cup { Honest("h-" \o ToString(a) \o "-" \o ToString(i) \o "-lower" \o ToString(pr) \o ToString(g),
                      Scn(base + 320 + pr * 6 + g, a, i, 1, 6, 9, (g % 2) = 0, pr, TRUE) @@ [grant |-> g], Lens(base + 320 + g)) : pr \in {3, 4}, g \in {0, 2} }
        \* "highest level" requested (0) and a BMC that answers the Open Session Request with the level it resolved that to
        \cup { Honest("h-" \o ToString(a) \o "-" \o ToString(i) \o "-g" \o ToString(g) \o (IF lk THEN "L" ELSE "N"),
                      Scn(base + 300 + g, a, i, 1, 6, 9, lk, 0, lk) @@ [grant |-> g], Lens(base + 300 + g)) : g \in {2, 4, 5}, lk \in BOOLEAN }
      extra(a, i, base) == IF ~Full THEN {} ELSE
        { Honest("hx-" \o ToString(a) \o "-" \o ToString(i) \o "-" \o ToString(u) \o "-" \o ToString(p),
                 Scn(base + 400 + u * 21 + p, a, i, 1, u, p, ((u + p) % 2) = 0, (u + p) % 6, ((u * p) % 2) = 0), Lens(base + u + p)) : u \in 0..16, p \in 0..20 }
  IN UNION { perSuite(s[1], s[2], (s[1] * 10 + s[2]) * 1000) \cup extra(s[1], s[2], (s[1] * 10 + s[2]) * 1000) : s \in suites }

\* a BMC key whose first byte is 00h is a key like any other: with a BMC that holds it the session is established with it,
\* and a BMC that holds no key at all (its SIK comes from the password) cannot pass for one that does
KgZeroSet ==
  { LET s == SetToSuite(q)
        S0 == Scn(9400 + q + Seed, s[1], s[2], 1, 5, 9, TRUE, 4, TRUE)
        SZ == [S0 EXCEPT !.kg = [i \in 1..20 |-> IF i <= z THEN 0 ELSE S0.kg[i]]]
        SN == [SZ EXCEPT !.kg = <<>>] IN
    IF held THEN Honest("kgzero-" \o ToString(q) \o "-" \o ToString(z) \o "-held", SZ, <<3>>)
    ELSE MutatedH("kgzero-" \o ToString(q) \o "-" \o ToString(z) \o "-none", SZ, SN, 3, R4Dg(SN), "error", "wrongKg", FALSE, TRUE)
    : q \in 1..3, z \in {1, 2, 19}, held \in BOOLEAN }
\* suites with None: must be refused with an error or succeed with the same guarantees
NoneSet ==
  { ScriptOf("none-" \o ToString(a) \o "-" \o ToString(t[1]) \o "-" \o ToString(t[2]), "none", Scn(7000 + a * 10 + t[1] + t[2], a, t[1], t[2], 4, 8, FALSE, 4, TRUE),
             << NewSessionCall(Scn(7000 + a * 10 + t[1] + t[2], a, t[1], t[2], 4, 8, FALSE, 4, TRUE),
                               ExpErr(Scn(7000 + a * 10 + t[1] + t[2], a, t[1], t[2], 4, 8, FALSE, 4, TRUE), "errorOrSession")),
                HonestOsr(Scn(7000 + a * 10 + t[1] + t[2], a, t[1], t[2], 4, 8, FALSE, 4, TRUE)),
                HonestRakp2(Scn(7000 + a * 10 + t[1] + t[2], a, t[1], t[2], 4, 8, FALSE, 4, TRUE)),
                HonestRakp4(Scn(7000 + a * 10 + t[1] + t[2], a, t[1], t[2], 4, 8, FALSE, 4, TRUE)) >>,
             [mut |-> "none"])
      : a \in {1, 2, 3}, t \in {<<0, 1>>, <<1, 0>>, <<0, 0>>, <<4, 0>>} }

MutateSet ==
  LET algs == IF Full THEN {1, 2, 3} ELSE {1 + (Seed % 3)}
      others == {1, 2, 3} \ algs
      integOf(a) == IF a = 3 THEN 4 ELSE a
  IN UNION { MutationsFor(Scn(9000 + a, a, integOf(a), 1, 5, 9, TRUE, 4, TRUE), "m" \o ToString(a) \o "-", TRUE) : a \in algs }
     \cup UNION { { x \in MutationsFor(Scn(9100 + a, a, integOf(a), 1, 16, 20, TRUE, 3, FALSE), "ms" \o ToString(a) \o "-", FALSE) : TRUE } : a \in others }

TripleSet ==
  LET props == IF Full THEN SupportedSuites ELSE {<<1, 1>>, <<3, 4>>, <<1 + (Seed % 3), IF (Seed % 3) = 2 THEN 4 ELSE 1 + (Seed % 3)>>}
      \* an algorithm payload of length 0 naming algorithm 0 ("wildcard" in a request) confirms nothing
      wild(S, id0) == { ScriptOf(id0 \o "-wild-" \o ToString(w), "triples", S,
                                 << NewSessionCall(S, ExpErr(S, "anyerror")),
                                    WithDg(HonestOsr(S), CASE w = 1 -> SetByte(SetByte(OsrDg(S), 16 + 23, 0), 16 + 24, 0)
                                                           [] w = 2 -> SetByte(SetByte(OsrDg(S), 16 + 31, 0), 16 + 32, 0)
                                                           [] w = 3 -> SetByte(SetByte(SetByte(SetByte(OsrDg(S), 16 + 23, 0), 16 + 24, 0), 16 + 31, 0), 16 + 32, 0)
                                                           [] OTHER -> SetByte(SetByte(OsrDg(S), 16 + 15, 0), 16 + 16, 0)),
                                    HonestRakp2(S), HonestRakp4(S), ExpectSession(S) >>, [mut |-> "triple-wildcard", triple |-> <<w, 0, 0>>]) : w \in 1..4 }
  IN UNION { Triples(Scn(9500 + s[1] * 10 + s[2], s[1], s[2], 1, 4, 6, FALSE, 4, TRUE), "t" \o ToString(s[1]) \o ToString(s[2]))
             \cup wild(Scn(9500 + s[1] * 10 + s[2], s[1], s[2], 1, 4, 6, FALSE, 4, TRUE), "t" \o ToString(s[1]) \o ToString(s[2])) : s \in props }
     \cup OddProposals(Scn(9600 + Seed, 1 + (Seed % 3), IF (Seed % 3) = 2 THEN 4 ELSE 1 + (Seed % 3), 1, 4, 6, FALSE, 4, TRUE), "p")

RetrySet ==
  LET S0 == Scn(9700 + Seed, 1 + (Seed % 3), IF (Seed % 3) = 2 THEN 4 ELSE 1 + (Seed % 3), 1, 6, 10, (Seed % 2) = 0, 4, TRUE)
      seqs == {<<x>> : x \in {"lost", "garbage", "stray"}} \cup {<<x, y>> : x \in {"lost", "garbage", "stray"}, y \in {"lost", "garbage", "stray"}}
              \cup {<<x, y, z>> : x \in {"lost", "garbage"}, y \in {"lost", "garbage"}, z \in {"lost", "garbage"}}
  IN { LegRetry("r" \o ToString(leg) \o "-" \o ToString(Len(sq)) \o "-" \o sq[1] \o (IF Len(sq) > 1 THEN sq[2] ELSE "") \o (IF Len(sq) > 2 THEN sq[3] ELSE ""), S0, leg, sq)
         : leg \in 1..3, sq \in seqs }
     \cup { StampedScript("stamped-" \o ToString(a), Scn(9800 + a, a, IF a = 3 THEN 4 ELSE a, 1, 3, 7, FALSE, 4, TRUE)) : a \in {1, 2, 3} }

\* long command histories on one session per suite (IV freshness, sequence numbers): lengths cycle through 0..40
LongSet ==
  LET n == IF Full THEN 400 ELSE 80 IN          \* (more commands than a 6-bit message sequence number has values)
  { Honest("long-" \o ToString(s[1]) \o "-" \o ToString(s[2]), Scn(9900 + s[1] * 10 + s[2], s[1], s[2], 1, 7, 11, (s[1] % 2) = 0, 4, TRUE),
           [j \in 1..n |-> (j * 7 + Seed) % 41]) : s \in SupportedSuites }

\* ------------------------------------------- session / connection lifecycles (C18)
\* one connection; operations chosen pseudo-randomly among those legal in the current state
\* connection-level operations through the library's own DialV2 (no hook): an unusable address (open attempt + failure),
\* a loopback address (attempt, gauge up) and the matching close (gauge down)
DialOps(k, i) == CASE Rnd(k, i + 500) % 7 = 0 -> << [k |-> "call", api |-> "DialV2", label |-> "dialfail", args |-> [addr |-> "127.0.0.1:99999"]] >>
                   [] Rnd(k, i + 500) % 7 = 1 -> << [k |-> "call", api |-> "DialV2", label |-> "dial", args |-> [addr |-> "127.0.0.1:9"]],
                                                    [k |-> "call", api |-> "ExtraClose", label |-> "extraclose"] >>
                   \* the same with a per-request timeout option - positive, zero or negative: whether the library accepts the
                   \* value or refuses it, the attempt is counted, a failure is counted iff an error is returned, and the gauge
                   \* rises iff a connection is handed out (MetricsLaw kinds dial / dialfail)
                   [] Rnd(k, i + 500) % 7 = 2 -> << [k |-> "call", api |-> "DialV2", label |-> "dial-opt",
                                                     args |-> [addr |-> "127.0.0.1:9", timeoutMs |-> <<250, 0, -5, 1500>>[1 + (Rnd(k, i + 900) % 4)]]],
                                                    [k |-> "call", api |-> "ExtraClose", label |-> "extraclose"] >>
                   [] OTHER -> <<>>
OpAt(k, i, open) == LET r == Rnd(k, i) % 6 IN
  IF ~open THEN (CASE r \in {0, 1, 4} -> "openOK" [] r \in {2, 5} -> "openFailPw" [] OTHER -> "openFailStatus")
  ELSE (CASE r \in {0, 1} -> "cmd" [] r = 2 -> "cmdLost" [] r = 3 -> "closeOK" [] r = 4 -> "closeErr" [] OTHER -> "closeLost")
\* (keepOnErr: the caller keeps the session value when Close fails, and may call Close on it again)
CloseCall(S) == [k |-> "call", api |-> "Close", label |-> "close", target |-> "sess", keepOnErr |-> TRUE,
                 exp |-> [outcome |-> "any", netfn |-> 6, cmd |-> 60, body |-> S.bmcSid]]
CloseReact(S, j, cc) ==
  [React0 EXCEPT !.datagrams = << Dg(SessPacket(S, LE32s(j), MsgRspE(EchoS, 7, 0, 60, cc, <<>>), Iv(S.k + j)),
                                     [kind |-> "closersp", valid |-> TRUE, code |-> cc]) >>]
OpSteps(S, op, j) ==
  CASE op = "openOK" -> << NewSessionCall(S, ExpSession(S)), HonestOsr(S), HonestRakp2(S), HonestRakp4(S), ExpectSession(S) >>
    [] op = "openFailPw" -> << NewSessionCall(S, ExpErr(S, "ErrIncorrectPassword")), HonestOsr(S), WithDg(HonestRakp2(S), R2Dg(WrongPw(S))) >>
    [] op = "openFailStatus" -> << NewSessionCall(S, ExpErr(S, "error")), WithDg(HonestOsr(S), SetByte(OsrDg(S), 17, 1)) >>
    [] op = "cmd" -> << RawCall(S, j, j % 13), RawReact(S, j, j % 13) >>
    [] op = "cmdLost" -> << [RawCall(S, j, 3) EXCEPT !.exp = [outcome |-> "any", netfn |-> 10, cmd |-> 16 + (j % 3), body |-> RawBody(S.k + j, 3)]], Lost >>
    [] op = "closeOK" -> << CloseCall(S), CloseReact(S, j, 0) >>
    [] op = "closeErr" -> << CloseCall(S), CloseReact(S, j, 135) >>
    [] op = "closeLost" -> << CloseCall(S), Lost >>
    [] op = "closeAgainOK" -> << CloseCall(S), CloseReact(S, j, 0) >>
    [] op = "closeAgainLost" -> << CloseCall(S), Lost >>
RECURSIVE Life(_, _, _, _, _, _)
Life(S, k, i, n, open, j) ==
  IF i > n THEN << [k |-> "call", api |-> "ConnClose", label |-> "connclose"] >>
  ELSE LET op == OpAt(k, i, open)
           nowOpen == IF op = "openOK" THEN TRUE ELSE IF op \in {"closeOK", "closeErr", "closeLost"} THEN FALSE ELSE open
           \* sequence numbers expected by TraceHandshake restart with each session
           j2 == IF op = "openOK" THEN 1 ELSE IF op \in {"cmd", "cmdLost", "closeOK", "closeErr", "closeLost"} THEN j + 1 ELSE j
       IN DialOps(k, i) \o OpSteps(S, op, j) \o Life(S, k, i + 1, n, nowOpen, j2)
LifecycleSet ==
  LET n == IF Full THEN 60 ELSE 24
      cnt == IF Full THEN 120 ELSE 32
  IN { LET s == SetToSuite(q) IN
       ScriptOf("life-" \o ToString(q), "lifecycle", Scn(12000 + q, s[1], s[2], 1, 5, 9, (q % 2) = 0, 4, TRUE),
                Life(Scn(12000 + q, s[1], s[2], 1, 5, 9, (q % 2) = 0, 4, TRUE), 500 + q, 1, n, FALSE, 1), [mut |-> "none"])
       : q \in 1..cnt }

\* every behaviour of Lifecycle.tla of a given length (LifecycleOps!Paths), instead of a pseudo-random choice of operations
RECURSIVE LifeSeq(_, _, _, _, _)
LifeSeq(S, k, ops, i, j) ==
  IF i > Len(ops) THEN << [k |-> "call", api |-> "ConnClose", label |-> "connclose"] >>
  ELSE LET op == ops[i]
           j2 == IF op = "openOK" THEN 1 ELSE IF op \in {"cmd", "cmdLost", "closeOK", "closeErr", "closeLost", "closeAgainOK", "closeAgainLost"} THEN j + 1 ELSE j
       IN DialOps(k, i) \o OpSteps(S, op, j) \o LifeSeq(S, k, ops, i + 1, j2)
LifecycleXSet ==
  LET d == IF Full THEN 6 ELSE 4 IN
  { LET q == Weight(p) + Seed
        s == SetToSuite(q)
        S == Scn(13000 + (q % 500), s[1], s[2], 1, 5, 9, (q % 2) = 0, 4, TRUE) IN
    ScriptOf("lifex-" \o Name(p), "lifecycle", S, LifeSeq(S, 700 + (q % 200), p, 1, 1), [mut |-> "none"])
    : p \in Paths("closed", d) }

\* ------------------------------------------- default path: no suites given => discovery, suite 17, else suite 3
\* served by rules: cipher-suite chunks by list index, then the honest legs of whichever suite the library proposes
StdRec(id, a, i, c) == <<192, id, a, 64 + i, 128 + c>>
LegRules(S17, S3) ==
  LET pick(leg17, leg3) == \* the proposal is visible in the Open Session Request only; later legs reuse what was captured then
        <<leg17, leg3>>
  IN << [rule |-> "osr17", when |-> << Eq(Slice(Req, 5, 6), B(<<16>>)), Eq(Slice(Req, 28, 29), B(<<3>>)) >>, effects |-> << [k |-> "set", name |-> "suite", v |-> 17] >>]
          @@ [captures |-> HonestOsr(S17).captures, datagrams |-> HonestOsr(S17).datagrams],
        [rule |-> "osr3", when |-> << Eq(Slice(Req, 5, 6), B(<<16>>)), Eq(Slice(Req, 28, 29), B(<<1>>)) >>, effects |-> << [k |-> "set", name |-> "suite", v |-> 3] >>]
          @@ [captures |-> HonestOsr(S3).captures, datagrams |-> HonestOsr(S3).datagrams],
        [rule |-> "rakp2-17", when |-> << Eq(Slice(Req, 5, 6), B(<<18>>)) >>, ifstate |-> [name |-> "suite", eq |-> 17]]
          @@ [captures |-> HonestRakp2(S17).captures, datagrams |-> HonestRakp2(S17).datagrams],
        [rule |-> "rakp2-3", when |-> << Eq(Slice(Req, 5, 6), B(<<18>>)) >>, ifstate |-> [name |-> "suite", eq |-> 3]]
          @@ [captures |-> HonestRakp2(S3).captures, datagrams |-> HonestRakp2(S3).datagrams],
        [rule |-> "rakp4-17", when |-> << Eq(Slice(Req, 5, 6), B(<<20>>)) >>, ifstate |-> [name |-> "suite", eq |-> 17]]
          @@ [captures |-> HonestRakp4(S17).captures, checks |-> HonestRakp4(S17).checks, datagrams |-> HonestRakp4(S17).datagrams],
        [rule |-> "rakp4-3", when |-> << Eq(Slice(Req, 5, 6), B(<<20>>)) >>, ifstate |-> [name |-> "suite", eq |-> 3]]
          @@ [captures |-> HonestRakp4(S3).captures, checks |-> HonestRakp4(S3).checks, datagrams |-> HonestRakp4(S3).datagrams] >>
DefaultScript(id, k, adv17, api) ==
  LET S17 == Scn(13000 + k, 3, 4, 1, 4 + (k % 5), 7 + (k % 9), FALSE, 4, api # "NewSession")
      S3 == [S17 EXCEPT !.authAlg = "sha1", !.integAlg = "sha1", !.authNum = 1, !.integNum = 1, !.icvLen = 12, !.integLen = 12]
      SS0 == IF adv17 THEN S17 ELSE S3
      SS == IF api = "NewSession" THEN [SS0 EXCEPT !.lookup = FALSE] ELSE SS0          \* NewSession: name-only lookup, no KG
      data == (IF adv17 THEN StdRec(17, 3, 4, 1) ELSE <<>>) \o StdRec(3, 1, 1, 1) \o StdRec(8, 2, 2, 1) \o StdRec(1, 1, 0, 0)
      call == IF api = "NewSession"
              THEN [k |-> "call", api |-> "NewSession", label |-> "open", args |-> [Username |-> SS.uname, Password |-> SS.pw, MaxPrivilegeLevel |-> SS.priv], exp |-> ExpSession(SS)]
              ELSE [NewSessionCall(SS, ExpSession(SS)) EXCEPT !.args = [@ EXCEPT !.CipherSuites = <<>>]]
  IN ScriptOf(id, "default", SS, << [k |-> "rules", rules |-> CipherRules(data) \o LegRules(S17, S3)], call, ExpectSession(SS) >> \o Commands(SS, <<2, 9>>), [mut |-> "none"])
\* an explicit single-suite session, closed, and then an establishment with default preferences on the same connection: the
\* defaults are what the second one proposes (17 if advertised, else 3), whatever the earlier session used
PinnedThenDefault(id, k, adv17, api2) ==
  LET S17 == Scn(13500 + k, 3, 4, 1, 4 + (k % 5), 7 + (k % 9), FALSE, 4, FALSE)
      S3 == [S17 EXCEPT !.authAlg = "sha1", !.integAlg = "sha1", !.authNum = 1, !.integNum = 1, !.icvLen = 12, !.integLen = 12]
      pinned == IF adv17 THEN S3 ELSE S3       \* the pinned suite is 3 (always advertised); the default choice differs when 17 is advertised
      want == IF adv17 THEN S17 ELSE S3
      data == (IF adv17 THEN StdRec(17, 3, 4, 1) ELSE <<>>) \o StdRec(3, 1, 1, 1) \o StdRec(8, 2, 2, 1)
      call2 == IF api2 = "NewSession"
               THEN [k |-> "call", api |-> "NewSession", label |-> "open", args |-> [Username |-> want.uname, Password |-> want.pw, MaxPrivilegeLevel |-> want.priv], exp |-> ExpSession(want)]
               ELSE [NewSessionCall(want, ExpSession(want)) EXCEPT !.args = [@ EXCEPT !.CipherSuites = <<>>]]
  IN ScriptOf(id, "default", want,
              << [k |-> "rules", rules |-> CipherRules(data) \o LegRules(S17, S3)],
                 \* (the script's key recipes are those of the second session, so the first one is only established, not used)
                 NewSessionCall(pinned, ExpSession(pinned)),
                 call2, ExpectSession(want) >> \o Commands(want, <<4>>), [mut |-> "none"])
\* default preferences first (17 is chosen), then an explicit list that ranks suite 3 above 17 on the same connection
DefaultThenOrdered(id, k) ==
  LET S17 == Scn(13700 + k, 3, 4, 1, 4 + (k % 5), 7 + (k % 9), FALSE, 4, TRUE)
      S3 == [S17 EXCEPT !.authAlg = "sha1", !.integAlg = "sha1", !.authNum = 1, !.integNum = 1, !.icvLen = 12, !.integLen = 12]
      data == StdRec(17, 3, 4, 1) \o StdRec(3, 1, 1, 1) \o StdRec(8, 2, 2, 1)
      first == [NewSessionCall(S17, ExpSession(S17)) EXCEPT !.args = [@ EXCEPT !.CipherSuites = <<>>]]
      second == [NewSessionCall(S3, ExpSession(S3)) EXCEPT !.args = [@ EXCEPT !.CipherSuites =
                   << [AuthenticationAlgorithm |-> 1, IntegrityAlgorithm |-> 1, ConfidentialityAlgorithm |-> 1],
                      [AuthenticationAlgorithm |-> 3, IntegrityAlgorithm |-> 4, ConfidentialityAlgorithm |-> 1] >>]]
  IN ScriptOf(id, "default", S3, << [k |-> "rules", rules |-> CipherRules(data) \o LegRules(S17, S3)], first, second, ExpectSession(S3) >> \o Commands(S3, <<4>>), [mut |-> "none"])
PinnedSet == { DefaultThenOrdered("ord-" \o ToString(k), k) : k \in 1..2 } \cup { PinnedThenDefault("pin-" \o ToString(k) \o (IF a THEN "-17-" ELSE "-3-") \o api, k, a, api) : k \in 1..(IF Full THEN 6 ELSE 2), a \in BOOLEAN, api \in {"NewSession", "NewV2Session"} }
DefaultSet == { DefaultScript("def-" \o ToString(k) \o (IF a THEN "-17-" ELSE "-3-") \o api, k, a, api) : k \in 1..(IF Full THEN 12 ELSE 3), a \in BOOLEAN, api \in {"NewSession", "NewV2Session"} }

\* ------------------------------------------- two establishments on one connection with different credentials
\* the caller keeps one password / KG buffer and rewrites it in place between the calls (harness option reuseCreds):
\* (a) the BMC still holds the old credential: no session (wrong password => ErrIncorrectPassword, wrong KG => ICV error);
\* (b) the BMC holds the new one too: the session must be established with the new keys
Rekey(id, S1, kind, bmcKnowsNew) ==
  LET S2 == IF kind = "pw" THEN [S1 EXCEPT !.pw = [i \in 1..Len(S1.pw) |-> (S1.pw[i] + 1 + i) % 256]]
            ELSE [S1 EXCEPT !.kg = [i \in 1..20 |-> (S1.kg[i] + 7 * i + 1) % 256]]
      first == << NewSessionCall(S1, ExpSession(S1)), HonestOsr(S1), HonestRakp2(S1), HonestRakp4(S1), ExpectSession(S1), CloseCall(S1), CloseReact(S1, 1, 0) >>
      second == IF bmcKnowsNew
                THEN << NewSessionCall(S2, ExpSession(S2)), HonestOsr(S2), HonestRakp2(S2), HonestRakp4(S2), ExpectSession(S2) >>
                ELSE IF kind = "pw"
                THEN << NewSessionCall(S2, ExpErr(S2, "ErrIncorrectPassword")), HonestOsr(S1), HonestRakp2(S1), ExpectSession(S1) >>
                ELSE << NewSessionCall(S2, ExpErr(S2, "error")), HonestOsr(S1), HonestRakp2(S1), HonestRakp4(S1), ExpectSession(S1) >>
  IN ScriptOf(id, "rekey", S1, first \o second, [mut |-> IF bmcKnowsNew THEN "none" ELSE (IF kind = "pw" THEN "wrongPw" ELSE "wrongKg")])
     @@ [opts |-> [reuseCreds |-> TRUE]]
\* one *V2SessionOpts value used for two BMCs with different passwords (no KG: the password is the key): only the
\* Password field is reassigned in between (harness option keepOpts; args of the second call list just that field)
FleetScript(id, S1) ==
  LET S2 == [S1 EXCEPT !.pw = [i \in 1..Len(S1.pw) |-> (S1.pw[i] * 3 + i) % 256], !.bmcSid = <<9, 8, 7, 6>>, !.rc = [i \in 1..16 |-> (i * 9) % 256]]
      c2 == NewSessionCall(S2, ExpSession(S2)) IN
  ScriptOf(id, "fleet", S1,
           << NewSessionCall(S1, ExpSession(S1)) @@ [keepOpts |-> TRUE], HonestOsr(S1), HonestRakp2(S1), HonestRakp4(S1), ExpectSession(S1), CloseCall(S1), CloseReact(S1, 1, 0),
              [c2 EXCEPT !.args = [Password |-> S2.pw]] @@ [keepOpts |-> TRUE], HonestOsr(S2), HonestRakp2(S2), HonestRakp4(S2), ExpectSession(S2) >>, [mut |-> "none"])
FleetSet == { LET s == SetToSuite(q) IN FleetScript("fleet-" \o ToString(q), Scn(16000 + q + Seed, s[1], s[2], 1, 3 + q, 6 + q, FALSE, 4, TRUE)) : q \in 1..9 }
\* a malformed set-up reply met on a connection that has been through an establishment before (successful and closed, or
\* failed on the password): nothing of the earlier exchange may stand in for what the reply lacks
ReusedSet ==
  LET a == 1 + (Seed % 3)
      S == Scn(9300 + a, a, IF a = 3 THEN 4 ELSE a, 1, 5, 9, TRUE, 4, TRUE)
      okFirst == << NewSessionCall(S, ExpSession(S)), HonestOsr(S), HonestRakp2(S), HonestRakp4(S), ExpectSession(S), CloseCall(S), CloseReact(S, 1, 0) >>
      failFirst == << NewSessionCall(S, ExpErr(S, "ErrIncorrectPassword")), HonestOsr(S), WithDg(HonestRakp2(S), R2Dg(WrongPw(S))) >>
      ms == { Mutated("sp1-" \o ToString(n), S, S, 1, ShortPayload(17, OpenSessionRspT(S), n), "error", "osr-short", FALSE) : n \in 0..35 }
            \cup { Mutated("sp1z-" \o ToString(n), S, S, 1, NullWrapper(17, B([i \in 1..n |-> 0])), "error", "osr-short", FALSE) : n \in 1..8 }
            \cup { Mutated("sp2-" \o ToString(n), S, S, 2, ShortPayload(19, Rakp2T(S), n), "error", "r2-short", FALSE) : n \in 0..(39 + DigestLen(S.authAlg)) }
            \cup { Mutated("sp3-" \o ToString(n), S, S, 3, ShortPayload(21, Rakp4T(S), n), "error", "r4-short", FALSE) : n \in 0..(7 + S.icvLen) }
  IN { [m EXCEPT !.id = "re-" \o @, !.steps = okFirst \o @] : m \in ms } \cup { [m EXCEPT !.id = "rf-" \o @, !.steps = failFirst \o @] : m \in ms }
RekeySet ==
  { LET s == SetToSuite(q) IN
    Rekey("rekey-" \o ToString(q) \o "-" \o kind \o (IF kn THEN "-new" ELSE "-old"), Scn(13000 + q + Seed, s[1], s[2], 1, 4 + (q % 9), 1 + (q % 20), TRUE, 4, (q % 2) = 0), kind, kn)
    : q \in 1..(IF Full THEN 36 ELSE 9), kind \in {"pw", "kg"}, kn \in BOOLEAN }
\* a username of more than 16 bytes through the session API: an error, and no RAKP Message 1 carrying a shortened name
\* (the BMC side is honest for the name the caller gave, so a truncated name could not even authenticate - but it must
\* not be sent in the first place)
LongUserSet ==
  { LET s == SetToSuite(n)
        S0 == Scn(14000 + n, s[1], s[2], 1, 5, 7, FALSE, 4, TRUE)
        S == [S0 EXCEPT !.uname = [i \in 1..n |-> 97 + ((i + n) % 26)]] IN
    ScriptOf("longuser-" \o ToString(n), "longuser", S,
             << NewSessionCall(S, ExpErr(S, "userTooLong")), HonestOsr(S), HonestRakp2(S), HonestRakp4(S), ExpectSession(S) >>, [mut |-> "none"])
    : n \in {17, 18, 20, 32, 33, 64, 255, 256, 257, 260, 272, 273, 512, 516} }
\* the caller's password / KG is longer than 20 bytes and its first 20 bytes are exactly what the BMC holds: the keyed
\* hashes are taken under different keys, so there is no session
LongCredSet ==
  { LET s == SetToSuite(q)
        SB == Scn(15000 + q + Seed, s[1], s[2], 1, 4, base, TRUE, 4, TRUE)
        S == IF kind = "pw" THEN [SB EXCEPT !.pw = @ \o [i \in 1..extra |-> (i * 7 + q) % 256]] ELSE [SB EXCEPT !.kg = @ \o [i \in 1..extra |-> (i * 5 + q) % 256]] IN
    ScriptOf("longcred-" \o ToString(q) \o "-" \o kind \o "-" \o ToString(base) \o "+" \o ToString(extra), "longcred", S,
             IF kind = "pw"
             THEN << NewSessionCall(S, ExpErr(S, "ErrIncorrectPassword")), HonestOsr(SB), HonestRakp2(SB), ExpectSession(SB) >>
             ELSE << NewSessionCall(S, ExpErr(S, "error")), HonestOsr(SB), HonestRakp2(SB), HonestRakp4(SB), ExpectSession(SB) >>,
             [mut |-> IF kind = "pw" THEN "wrongPw" ELSE "wrongKg"])
    \* (16 bytes was the password field of IPMI v1.5; v2.0 allows 20: the first 16 / 20 bytes equal the BMC's)
    : q \in 1..9, kind \in {"pw", "kg"}, base \in {16, 20}, extra \in {1, 4, 12, 44} }
Scripts == CASE Family = "honest" -> HonestSet \cup NoneSet \cup DefaultSet \cup PinnedSet \cup {x \in KgZeroSet : x.info.mut = "none"}
             [] Family = "longuser" -> LongUserSet
             [] Family = "rekey" -> RekeySet \cup LongCredSet \cup FleetSet \cup ReusedSet \cup {x \in KgZeroSet : x.info.mut # "none"}
             [] Family = "lifecycle" -> LifecycleSet
             [] Family = "lifecyclex" -> LifecycleXSet
             [] Family = "long" -> LongSet
             [] Family = "mutate" -> MutateSet
             [] Family = "triples" -> TripleSet
             [] Family = "retry" -> RetrySet

Header == [header |-> TRUE, family |-> Family, stable |-> <<"SIK", "K1", "K2">>]
ASSUME PrintT(<<"HEADER", ToJson(Header)>>)
ASSUME \A s \in Scripts : PrintT(<<"SCRIPT", ToJson(s)>>)
ASSUME PrintT(<<"COUNT", ToJson([n |-> Cardinality(Scripts)])>>)
=============================================================================
