----------------------------- MODULE MetricsLaw -----------------------------
(* The conservation laws of C18, as a function from what happened in one API
   call (an independent count built from the call, the transmissions, the valid
   responses and the return) to the exact change of every exported counter and
   gauge.  Used by the trace specifications: after every call the gathered
   registry must have changed by exactly ExpDelta, for every key.

     command attempts  = calls made, per command name
     command failures  = calls that returned an error
     retries           = transmissions beyond the first of each call
     responses{code}   = valid responses received
     session / connection open attempts and failures = opens tried and failed
     gauges            = opens minus closes *)
EXTENDS Integers, Sequences, FiniteSets

HexDigits == <<"0", "1", "2", "3", "4", "5", "6", "7", "8", "9", "a", "b", "c", "d", "e", "f">>
Hex2(b) == "0x" \o HexDigits[(b \div 16) + 1] \o HexDigits[(b % 16) + 1]
AttemptsKey(name)  == "bmc_command_attempts_total{command=" \o name \o "}"
FailuresKey(name)  == "bmc_command_failures_total{command=" \o name \o "}"
ResponsesKey(code) == "bmc_command_responses_total{code=" \o Hex2(code) \o "}"
RetriesKey   == "bmc_command_retries_total"
DurationKey  == "bmc_command_duration_seconds_count"
SessAttemptsKey == "bmc_session_open_attempts_total"
SessFailuresKey == "bmc_session_open_failures_total"
SessionsOpenKey == "bmc_sessions_open"
ConnAttemptsKey == "bmc_connection_open_attempts_total{version=2.0}"
ConnFailuresKey == "bmc_connection_open_failures_total{version=2.0}"
ConnsOpenKey    == "bmc_connections_open{version=2.0}"

B2N(b) == IF b THEN 1 ELSE 0
\* c = [kind, name, err, ntx, codes]; kind: "command" | "close" | "open" | "dial" | "connclose" | "none"
ExpDelta(c, k) ==
  CASE c.kind \in {"command", "close"} ->
         B2N(k = AttemptsKey(c.name)) + B2N(k = FailuresKey(c.name) /\ c.err)
         + (IF k = RetriesKey /\ c.ntx > 1 THEN c.ntx - 1 ELSE 0)
         + B2N(k = DurationKey)
         + Cardinality({i \in 1..Len(c.codes) : k = ResponsesKey(c.codes[i])})
         - B2N(c.kind = "close" /\ k = SessionsOpenKey)
    \* a session open that first asks the BMC for its cipher suites ("opendisc"), or that enumeration on its own ("disc"):
    \* c.ntx Get Channel Cipher Suites commands, each transmitted once and answered with the valid responses c.codes, none
    \* of them failing; the open itself is one attempt, and one failure if it returned an error - whether the error arose
    \* during the enumeration, the choice of a suite or the RAKP exchange
    [] c.kind \in {"opendisc", "disc"} ->
         (IF c.kind = "opendisc" THEN B2N(k = SessAttemptsKey) + B2N(k = SessFailuresKey /\ c.err) + B2N(k = SessionsOpenKey /\ ~c.err) ELSE 0)
         + (IF k = AttemptsKey(c.name) \/ k = DurationKey THEN c.ntx ELSE 0)
         + Cardinality({i \in 1..Len(c.codes) : k = ResponsesKey(c.codes[i])})
    [] c.kind = "open" -> B2N(k = SessAttemptsKey) + B2N(k = SessFailuresKey /\ c.err) + B2N(k = SessionsOpenKey /\ ~c.err)
    [] c.kind = "dial" -> B2N(k = ConnAttemptsKey) + B2N(k = ConnsOpenKey)
    [] c.kind = "dialfail" -> B2N(k = ConnAttemptsKey) + B2N(k = ConnFailuresKey)
    [] c.kind = "connclose" -> 0 - B2N(k = ConnsOpenKey)
    [] OTHER -> 0
KeysOf(c) == IF c.kind \in {"command", "close"}
             THEN {AttemptsKey(c.name), FailuresKey(c.name), RetriesKey, DurationKey, SessionsOpenKey} \cup {ResponsesKey(c.codes[i]) : i \in 1..Len(c.codes)}
             ELSE IF c.kind \in {"opendisc", "disc"}
             THEN {AttemptsKey(c.name), FailuresKey(c.name), RetriesKey, DurationKey, SessAttemptsKey, SessFailuresKey, SessionsOpenKey} \cup {ResponsesKey(c.codes[i]) : i \in 1..Len(c.codes)}
             ELSE {SessAttemptsKey, SessFailuresKey, SessionsOpenKey, ConnAttemptsKey, ConnFailuresKey, ConnsOpenKey}
Get(mrec, k) == IF k \in DOMAIN mrec THEN mrec[k] ELSE 0
\* transport-level histograms are owned by the real socket transport and are not part of C18
Accounted(k) == k \notin {"bmc_transport_transmit_bytes_count", "bmc_transport_receive_bytes_count", "bmc_transport_response_latency_seconds_count"}
BadKeys(prev, cur, c) == {k \in (DOMAIN prev \cup DOMAIN cur \cup KeysOf(c)) : Accounted(k) /\ Get(cur, k) - Get(prev, k) # ExpDelta(c, k)}
Law(prev, cur, c) == BadKeys(prev, cur, c) = {}
=============================================================================
