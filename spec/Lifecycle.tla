----------------------------- MODULE Lifecycle ------------------------------
(* One connection's life as a state machine with the exported session
   accounting of C18: the counters the library exports (m) beside an
   independent ghost count of what happened (g).

   Guards (TRUE = what the library does; FALSE = a plausible variant whose
   configuration must violate the invariant named beside it):
     G_DecAlways     the gauge goes down on every Close, answered or not       C18_Gauge
     G_CountFailure  every failed open is counted as a failure                 C18_Opens
     G_AttemptFirst  the attempt is counted before any work that can fail      C18_Opens *)
EXTENDS LifecycleOps, TLC

CONSTANTS MaxOps, G_DecAlways, G_CountFailure, G_AttemptFirst

VARIABLES open, m, g, n, hist
vars == <<open, m, g, n, hist>>

Init == open = "closed" /\ n = 0 /\ hist = <<>>
        /\ m = [attempts |-> 0, failures |-> 0, gauge |-> 0, cmdAttempts |-> 0, cmdFailures |-> 0]
        /\ g = [tried |-> 0, failed |-> 0, opened |-> 0, closed |-> 0, reclosed |-> 0, cmds |-> 0, cmdErrs |-> 0]

Do(op) ==
  /\ n < MaxOps /\ n' = n + 1 /\ hist' = Append(hist, op)
  /\ open' = After(open, op)
  /\ g' = [tried |-> g.tried + (IF IsOpenTry(op) THEN 1 ELSE 0),
           failed |-> g.failed + (IF IsOpenTry(op) /\ Fails(op) THEN 1 ELSE 0),
           opened |-> g.opened + (IF op = "openOK" THEN 1 ELSE 0),
           closed |-> g.closed + (IF IsClose(op) THEN 1 ELSE 0),
           reclosed |-> g.reclosed + (IF IsReClose(op) THEN 1 ELSE 0),
           cmds |-> g.cmds + (IF ~IsOpenTry(op) THEN 1 ELSE 0),            \* Close Session is a command too
           cmdErrs |-> g.cmdErrs + (IF ~IsOpenTry(op) /\ Fails(op) THEN 1 ELSE 0)]
  /\ m' = [attempts |-> m.attempts + (IF IsOpenTry(op) /\ (G_AttemptFirst \/ op # "openFailStatus") THEN 1 ELSE 0),
           failures |-> m.failures + (IF IsOpenTry(op) /\ Fails(op) /\ (G_CountFailure \/ op # "openFailPw") THEN 1 ELSE 0),
           gauge |-> m.gauge + (IF op = "openOK" THEN 1 ELSE 0) - (IF IsClose(op) /\ (G_DecAlways \/ op \in {"closeOK", "closeAgainOK"}) THEN 1 ELSE 0),
           cmdAttempts |-> m.cmdAttempts + (IF ~IsOpenTry(op) THEN 1 ELSE 0),
           cmdFailures |-> m.cmdFailures + (IF ~IsOpenTry(op) /\ Fails(op) THEN 1 ELSE 0)]

Next == \E i \in 1..Len(Legal(open)) : Do(Legal(open)[i])
Spec == Init /\ [][Next]_vars

TypeOK == open \in {"closed", "open", "failed"} /\ n \in 0..MaxOps
\* the gauge equals opens minus closes; as long as no Close was repeated that is whether a session is in use, and every
\* repeated Close of one session takes it one further down
C18_Gauge == m.gauge = g.opened - g.closed /\ m.gauge = (IF open = "open" THEN 1 ELSE 0) - g.reclosed
C18_Opens == m.attempts = g.tried /\ m.failures = g.failed
C18_Commands == m.cmdAttempts = g.cmds /\ m.cmdFailures = g.cmdErrs
\* the generator's paths are exactly the behaviours: what happened so far is a legal path, and the state a path leads to
\* is the state the machine is in
RECURSIVE IsPath(_, _)
IsPath(o, p) == p = <<>> \/ ((\E i \in 1..Len(Legal(o)) : Legal(o)[i] = Head(p)) /\ IsPath(After(o, Head(p)), Tail(p)))
C18_PathsAgree == IsPath("closed", hist) /\ OpenAfter("closed", hist) = open /\ Len(hist) = n
=============================================================================
