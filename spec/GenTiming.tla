------------------------------ MODULE GenTiming ------------------------------
(* Real-time scenarios for C13, played over UDP loopback against the library's
   own socket transport and back-off (no hook): every blocking call x every
   fault pattern of Timing.tla x deadline/timeout ratios, plus calls made with an
   already expired context. *)
EXTENDS Crypto, Json, FiniteSets, TLC

CONSTANTS Seed, Family, Tier
Full == Tier = "thorough"
S == [authAlg |-> "sha1", integAlg |-> "sha1", authNum |-> 1, integNum |-> 1, confNum |-> 1, icvLen |-> 12, integLen |-> 12,
      uname |-> <<97>>, pw |-> <<98, 99>>, kg |-> <<>>, priv |-> 4, lookup |-> TRUE, bmcSid |-> <<7, 7, 7, 4>>,
      rc |-> [i \in 1..16 |-> (i * 5) % 256], guid |-> [i \in 1..16 |-> (90 + i) % 256]]

\* (deadline ms, per-attempt timeout ms): ratios 0.25, 1, 3
Ratios == IF Full THEN {<<250, 1000>>, <<500, 2000>>, <<400, 400>>, <<900, 300>>, <<1500, 500>>} ELSE {<<250, 1000>>, <<400, 400>>, <<900, 300>>}
Allow(d) == IF d * 3 > 1500 THEN (d * 3) \div 10 ELSE 150        \* max(150 ms, 0.3 x deadline)
Garbage == B(<<6, 0, 255, 7, 6, 0, 1, 2>>)
IsPt(p) == Eq(Slice(Req, 5, 6), B(<<p>>))
InSess == Eq(Slice(Req, 5, 6), B(<<192>>))
\* decrypted in-session request: NetFn Storage (0Ah << 2) and the command number
IsStorage(c) == And(<< Eq(Slice(Ref("ReqPlainT"), 1, 2), B(<<40>>)), Eq(Slice(Ref("ReqPlainT"), 5, 6), B(<<c>>)) >>)
Rule(name, when, dgs) == [rule |-> name, when |-> when, datagrams |-> dgs]
Now(t) == << Dg(t, [kind |-> "reply"]) >>
NowValid(t, cc) == << Dg(t, [kind |-> "reply", valid |-> TRUE, code |-> cc]) >>
Late(t) == << [t |-> t, when |-> "late", attrs |-> [kind |-> "late"]] >>
\* honest handshake legs as rules (with their captures)
OsrRule == Rule("osr", <<IsPt(16)>>, HonestOsr(S).datagrams) @@ [captures |-> HonestOsr(S).captures]
R2Rule == Rule("rakp2", <<IsPt(18)>>, HonestRakp2(S).datagrams) @@ [captures |-> HonestRakp2(S).captures]
R4Rule == Rule("rakp4", <<IsPt(20)>>, HonestRakp4(S).datagrams) @@ [captures |-> HonestRakp4(S).captures]
Handshake == << OsrRule, R2Rule, R4Rule >>
InSessReply(netfnRsp, cmd, cc, data) == SessPacket(S, <<1, 0, 0, 0>>, MsgRspE(EchoS, netfnRsp, 0, cmd, cc, data), [i \in 1..16 |-> i])
NullReply(netfnRsp, cmd, cc, data) == NullWrapper(0, MsgRspE(EchoN, netfnRsp, 0, cmd, cc, data))

\* fault -> the datagrams the BMC answers the faulty step with
Faulty(f, goodT, busyT) == CASE f = "blackhole" -> <<>> [] f = "late" -> Late(goodT) [] f = "garbage" -> Now(Garbage) [] f = "temp" -> NowValid(busyT, 192)
                             [] f = "trunc" -> Now(Trunc(goodT, 21))
                             \* a well-formed, prompt refusal: Open Session Response with status 01h (insufficient resources)
                             [] f = "status01" -> Now(SetByte(goodT, 17, 1))
TimedCall(call, d, mustErr) == call @@ [ctx |-> [ms |-> d], exp |-> [prop |-> "C13", outcome |-> "timed", deadlineMs |-> d, allowMs |-> Allow(d), mustErr |-> mustErr]]
Expired(call) == call @@ [ctx |-> [ms |-> 5000, expired |-> TRUE], exp |-> [prop |-> "C13", outcome |-> "timed", deadlineMs |-> 0, allowMs |-> 150, mustErr |-> TRUE]]
RawCall(tg) == [k |-> "call", api |-> "Raw", label |-> "raw", target |-> tg, args |-> [netfn |-> 10, cmd |-> 16, lun |-> 0, body |-> <<1>>]]
OpenCall == CallNewV2Session(S) @@ [label |-> "open"]
CloseCall == [k |-> "call", api |-> "Close", label |-> "close", target |-> "sess"]
SdrCall == [k |-> "call", api |-> "RetrieveSDRRepository", label |-> "sdr", target |-> "sess"]
Quiet(call) == call @@ [ctx |-> [ms |-> 5000]]
Script(id, kind, f, r, rules, steps) ==
  [id |-> id, transport |-> "udp", opts |-> [timeoutMs |-> r[2], lateMs |-> r[2] + (r[2] \div 3) + 20],
   info |-> [family |-> "timing", insess |-> FALSE, notx |-> TRUE, kind |-> kind, fault |-> f, deadlineMs |-> r[1], timeoutMs |-> r[2]],
   steps |-> << [k |-> "rules", rules |-> rules] >> \o steps]

\* which faults leave no way to obtain a valid response
MustErr(f) == f # "late"
\* ---- C10 over real time: busy, busy, then the answer, each prompt; the library's own back-off between the attempts makes
\* the command last longer than one per-attempt timeout, and it must still return the final answer
BusyThenOk(id, insess, nBusy, r) ==
  LET good == IF insess THEN InSessReply(11, 16, 0, <<5>>) ELSE NullReply(11, 16, 0, <<5>>)
      busy == IF insess THEN InSessReply(11, 16, 192, <<>>) ELSE NullReply(11, 16, 192, <<>>)
      when == IF insess THEN <<InSess>> ELSE <<IsPt(0)>>
      rules == (IF insess THEN Handshake ELSE <<>>) \o
               << [rule |-> "busy", when |-> when, ifstate |-> [name |-> "b", lt |-> nBusy], effects |-> << [k |-> "inc", name |-> "b"] >>, datagrams |-> NowValid(busy, 192)],
                  [rule |-> "answer", when |-> when, datagrams |-> NowValid(good, 0)] >>
      call == RawCall(IF insess THEN "sess" ELSE "conn") @@ [ctx |-> [ms |-> r[1]],
                exp |-> [prop |-> "C10", outcome |-> "timed", deadlineMs |-> r[1], allowMs |-> Allow(r[1]), mustErr |-> FALSE, mustOk |-> TRUE]]
      b == Script(id, "busy-then-ok", "temp", r, rules, (IF insess THEN << Quiet(OpenCall) >> ELSE <<>>) \o << call >>)
  IN [b EXCEPT !.steps = << [k |-> "rules", rules |-> rules, state |-> [b |-> 0]] >> \o Tail(@)]
RetryTimeScripts == { BusyThenOk("bto-" \o (IF s THEN "s" ELSE "n") \o "-" \o ToString(n) \o "-" \o ToString(r[2]), s, n, r)
                      : s \in BOOLEAN, n \in {1, 2}, r \in {<<6000, 300>>, <<6000, 150>>} }
Sessionless(f, r) == Script("sl-" \o f \o "-" \o ToString(r[1]) \o "-" \o ToString(r[2]), "sessionless", f, r,
                            << Rule("cmd", <<IsPt(0)>>, Faulty(f, NullReply(11, 16, 0, <<5>>), NullReply(11, 16, 192, <<>>))) >>,
                            << TimedCall(RawCall("conn"), r[1], MustErr(f)) >>)
HandshakeLeg(f, leg, r) ==
  LET good == CASE leg = 1 -> OsrRule [] leg = 2 -> R2Rule [] leg = 3 -> R4Rule
      bad == [good EXCEPT !.datagrams = Faulty(f, good.datagrams[1].t, Garbage), !.rule = "faulty-leg"]
      rules == CASE leg = 1 -> <<bad>> [] leg = 2 -> <<OsrRule, bad>> [] leg = 3 -> <<OsrRule, R2Rule, bad>>
  IN Script("hs-" \o f \o "-" \o ToString(leg) \o "-" \o ToString(r[1]) \o "-" \o ToString(r[2]), "handshake", f, r, rules, << TimedCall(OpenCall, r[1], MustErr(f)) >>)
InSession(f, r) == Script("is-" \o f \o "-" \o ToString(r[1]) \o "-" \o ToString(r[2]), "in-session", f, r,
                          Handshake \o << Rule("cmd", <<InSess>>, Faulty(f, InSessReply(11, 16, 0, <<5>>), InSessReply(11, 16, 192, <<>>))) >>,
                          << Quiet(OpenCall), TimedCall(RawCall("sess"), r[1], TRUE) >>)
Close(f, r) == Script("cl-" \o f \o "-" \o ToString(r[1]) \o "-" \o ToString(r[2]), "close", f, r,
                      Handshake \o << Rule("cmd", <<InSess>>, Faulty(f, InSessReply(7, 60, 0, <<>>), InSessReply(7, 60, 192, <<>>))) >>,
                      << Quiet(OpenCall), TimedCall(CloseCall, r[1], TRUE) >>)
\* SDR retrieval: the first request (Get SDR Repository Info, Storage 0Ah / 20h) meets the fault; or every walk finds the
\* repository modified (a permanent error would do the same): the outer retry must stop at the deadline, inside its back-off sleep
Sdr(f, r) == Script("sdr-" \o f \o "-" \o ToString(r[1]) \o "-" \o ToString(r[2]), "sdr", f, r,
                    Handshake \o << Rule("cmd", <<InSess>>, IF f = "permanent" THEN Now(InSessReply(11, 32, 193, <<>>))
                                                             ELSE Faulty(f, InSessReply(11, 32, 0, <<81, 0, 0, 0, 0, 1, 0, 0, 0, 1, 0, 0, 0, 2>>), InSessReply(11, 32, 192, <<>>))) >>,
                    << Quiet(OpenCall), TimedCall(SdrCall, r[1], TRUE) >>)
ExpiredScripts ==
  { Script("exp-sessionless", "expired", "none", <<0, 300>>, << Rule("cmd", <<IsPt(0)>>, Now(NullReply(11, 16, 0, <<5>>))) >>, << Expired(RawCall("conn")) >>),
    Script("exp-handshake", "expired", "none", <<0, 300>>, Handshake, << Expired(OpenCall) >>),
    Script("exp-insession", "expired", "none", <<0, 300>>, Handshake \o << Rule("cmd", <<InSess>>, Now(InSessReply(11, 16, 0, <<5>>))) >>, << Quiet(OpenCall), Expired(RawCall("sess")) >>),
    Script("exp-close", "expired", "none", <<0, 300>>, Handshake \o << Rule("cmd", <<InSess>>, Now(InSessReply(7, 60, 0, <<>>))) >>, << Quiet(OpenCall), Expired(CloseCall) >>),
    Script("exp-sdr", "expired", "none", <<0, 300>>, Handshake \o << Rule("cmd", <<InSess>>, Now(InSessReply(11, 32, 193, <<>>))) >>, << Quiet(OpenCall), Expired(SdrCall) >>) }
\* a tiny deadline that falls inside the SDR retrieval's first back-off sleep (250-750 ms)
SdrShort == { Script("sdr-permanent-50", "sdr", "permanent", <<50, 300>>, Handshake \o << Rule("cmd", <<InSess>>, Now(InSessReply(11, 32, 193, <<>>))) >>,
                     << Quiet(OpenCall), TimedCall(SdrCall, 50, TRUE) >>),
              Script("sdr-permanent-120", "sdr", "permanent", <<120, 40>>, Handshake \o << Rule("cmd", <<InSess>>, Now(InSessReply(11, 32, 193, <<>>))) >>,
                     << Quiet(OpenCall), TimedCall(SdrCall, 120, TRUE) >>) }
\* C18 over real time: a call that keeps being retried until its deadline, which falls inside a back-off sleep
MetricScripts == { Sessionless(f, r) : f \in {"temp", "garbage", "blackhole"}, r \in {<<900, 300>>, <<700, 200>>, <<1300, 150>>} }
                 \cup { InSession("temp", r) : r \in {<<900, 300>>, <<1300, 150>>} }
                 \* (a call made with a context that has already expired is judged in the api family, on the in-memory
                 \* transport: over a real socket the count of datagrams the BMC saw is not a reliable witness for it)
\* histories: an earlier call on the same connection was made with a context that is still alive (an application-wide
\* context) and outlives the later call's deadline; the later call, with its own short deadline, meets the fault
Alive(call) == call @@ [ctx |-> [ms |-> 2500, keepAlive |-> TRUE],
                        exp |-> [prop |-> "C13", outcome |-> "timed", deadlineMs |-> 2500, allowMs |-> 750, mustErr |-> FALSE]]
AliveQuiet(call) == call @@ [ctx |-> [ms |-> 2500, keepAlive |-> TRUE]]
FirstThen(first, then) == << [rule |-> "first", when |-> first.when, ifstate |-> [name |-> "n", eq |-> 0], effects |-> << [k |-> "inc", name |-> "n"] >>,
                              datagrams |-> first.datagrams], then >>
HScript(id, kind, f, r, rules, steps) == [Script(id, kind, f, r, rules, steps) EXCEPT !.steps = << [k |-> "rules", rules |-> rules, state |-> [n |-> 0]] >> \o steps]
Histories ==
  LET r == <<400, 150>> IN
  UNION { { HScript("hist-sl-" \o f, "history-sessionless", f, r,
                    FirstThen(Rule("ok", <<IsPt(0)>>, NowValid(NullReply(11, 16, 0, <<5>>), 0)),
                              Rule("cmd", <<IsPt(0)>>, Faulty(f, NullReply(11, 16, 0, <<5>>), NullReply(11, 16, 192, <<>>)))),
                    << Alive(RawCall("conn")), TimedCall(RawCall("conn"), r[1], MustErr(f)) >>),
            HScript("hist-hs-" \o f, "history-handshake", f, r,
                    << Rule("ok", <<IsPt(0)>>, NowValid(NullReply(11, 16, 0, <<5>>), 0)),
                       [OsrRule EXCEPT !.datagrams = Faulty(f, OsrRule.datagrams[1].t, Garbage), !.rule = "faulty-leg"] >>,
                    << Alive(RawCall("conn")), TimedCall(OpenCall, r[1], MustErr(f)) >>),
            HScript("hist-is-" \o f, "history-in-session", f, r,
                    Handshake \o << Rule("cmd", <<InSess>>, Faulty(f, InSessReply(11, 16, 0, <<5>>), InSessReply(11, 16, 192, <<>>))) >>,
                    << AliveQuiet(OpenCall), TimedCall(RawCall("sess"), r[1], TRUE) >>),
            HScript("hist-sdr-" \o f, "history-sdr", f, r,
                    Handshake \o << Rule("cmd", <<InSess>>, Faulty(f, InSessReply(11, 32, 0, <<81, 0, 0, 0, 0, 1, 0, 0, 0, 1, 0, 0, 0, 2>>), InSessReply(11, 32, 192, <<>>))) >>,
                    << AliveQuiet(OpenCall), TimedCall(SdrCall, r[1], TRUE) >>) }
          : f \in {"blackhole", "garbage", "temp"} }
AllFaults == {"blackhole", "late", "garbage", "temp"}
\* ---- C13: legal answers that keep a composite call going until the deadline
\* every Get SDR Repository Info reports a newer addition time stamp: each walk ends "modified", the outer retry sleeps
SdrModifiedForever(r) ==
  LET info == DynMsgRsp(11, 32, 0, Cat(<< B(<<81, 1, 0, 255, 255>>), State16("t"), B(<<0, 0>>), B(<<10, 0, 0, 0>>), B(<<34>>) >>))
      rules == Handshake \o
        << [rule |-> "info", when |-> <<InSess, IsStorage(32)>>, effects |-> << [k |-> "inc", name |-> "t"] >>, datagrams |-> Now(DynSessPacket(S, <<1, 0, 0, 0>>, info, [i \in 1..16 |-> i]))],
           [rule |-> "reserve", when |-> <<InSess, IsStorage(34)>>, datagrams |-> Now(InSessReply(11, 34, 0, <<7, 0>>))],
           \* one compact sensor record (type 02h), then the end of the repository
           [rule |-> "getsdr", when |-> <<InSess, IsStorage(35)>>, datagrams |-> Now(InSessReply(11, 35, 0, <<255, 255, 1, 0, 81, 2, 10>>))] >>
      b == Script("sdr-modified-" \o ToString(r[1]) \o "-" \o ToString(r[2]), "sdr", "modified", r, rules, << Quiet(OpenCall), TimedCall(SdrCall, r[1], TRUE) >>)
  IN [b EXCEPT !.steps = << [k |-> "rules", rules |-> rules, state |-> [t |-> 100]] >> \o Tail(@)]
\* ---- the library's own socket transport with the datagrams judged (not only the timing): what reaches the BMC over a
\* real socket is what the properties say, also when the reply is slow, undecodable at the lowest level, or followed by a
\* stray datagram
WireScript(id, insess, kind, r, rules, call) ==
  [id |-> id, transport |-> "udp", prefix |-> IF insess THEN "hs" ELSE "", opts |-> [timeoutMs |-> r[2], lateMs |-> r[2] * 2],
   session |-> SessionRecipes(S),
   info |-> [family |-> "udpwire", insess |-> insess, notx |-> FALSE, integLen |-> S.integLen, bmcSid |-> S.bmcSid, kind |-> kind, timeoutMs |-> r[2]],
   steps |-> << [k |-> "rules", rules |-> rules, state |-> [b |-> 0]], call >>]
WireCall(prop, r) == RawCall("sess") @@ [ctx |-> [ms |-> r[1]],
   exp |-> [prop |-> prop, outcome |-> "timed", deadlineMs |-> r[1], allowMs |-> Allow(r[1]), mustErr |-> FALSE, mustOk |-> TRUE]]
Guid16 == [i \in 1..16 |-> (17 * i + 3) % 256]
WireScripts ==
  \* an in-session reply that takes three quarters of the per-attempt timeout: the request is transmitted once
  { WireScript("wire-slow-" \o ToString(r[2]), TRUE, "slow", r,
               << [rule |-> "slow", when |-> <<InSess>>, delayMs |-> (r[2] * 3) \div 4, datagrams |-> NowValid(InSessReply(11, 16, 0, <<5>>), 0)] >>,
               WireCall("C03", r)) : r \in {<<6000, 800>>, <<6000, 1200>>} }
  \* the first reply is not even RMCP (empty, shorter than the header, another version): the request is sent again
  \* (with the next sequence number) and the answer to that is returned
  \cup { WireScript("wire-runt-" \o ToString(g) \o "-" \o ToString(r[2]), TRUE, "runt", r,
                    << [rule |-> "runt", when |-> <<InSess>>, ifstate |-> [name |-> "b", lt |-> 1], effects |-> << [k |-> "inc", name |-> "b"] >>,
                        datagrams |-> Now(B(<< <<>>, <<6>>, <<6, 0, 255>>, <<7, 0, 255, 7, 1, 2, 3, 4>> >>[g]))],
                       [rule |-> "answer", when |-> <<InSess>>, datagrams |-> NowValid(InSessReply(11, 16, 0, <<5>>), 0)] >>,
                    WireCall("C10", r)) : g \in 1..4, r \in {<<6000, 300>>} }
  \* session-less: the first transmission is lost; the retransmission is answered, and a datagram that answers some
  \* other command sits in the socket right behind the answer: the result is the answer
  \cup { WireScript("wire-stray-" \o ToString(r[2]), FALSE, "stray-behind", r,
                    << [rule |-> "lost", when |-> <<IsPt(0)>>, ifstate |-> [name |-> "b", lt |-> 1], effects |-> << [k |-> "inc", name |-> "b"] >>, datagrams |-> <<>>],
                       [rule |-> "answer+stray", when |-> <<IsPt(0)>>,
                        datagrams |-> NowValid(NullReply(7, 55, 0, Guid16), 0) \o Now(NullReply(7, 1, 0, [i \in 1..15 |-> 238])) ] >>,
                    [k |-> "call", api |-> "Method", method |-> "GetSystemGUID", on |-> "", margs |-> <<>>, label |-> "guid", target |-> "conn", ctx |-> [ms |-> r[1]],
                     exp |-> [prop |-> "C11", vprop |-> "C11", outcome |-> "equals", value |-> Guid16]]) : r \in {<<6000, 300>>} }
Scripts == IF Family = "metrics" THEN MetricScripts ELSE IF Family = "retrytime" THEN RetryTimeScripts ELSE IF Family = "udpwire" THEN WireScripts ELSE
  LET rs == IF Full \/ Family = "all" THEN Ratios ELSE {r \in Ratios : TRUE} IN
  UNION { { Sessionless(f, r), InSession(f, r), Close(f, r) } : f \in AllFaults, r \in rs }
  \cup { HandshakeLeg(f, leg, r) : f \in AllFaults \cup {"trunc"}, leg \in 1..3, r \in (IF Full THEN rs ELSE {<<250, 1000>>, <<900, 300>>}) }
  \cup { Sdr(f, r) : f \in {"blackhole", "late", "garbage", "temp", "permanent"}, r \in (IF Full THEN rs ELSE {<<250, 1000>>, <<900, 300>>}) }
  \cup ExpiredScripts \cup SdrShort \cup Histories
  \* (a deadline well below the smallest pause of the library's back-off, 250 ms, makes an uninterruptible wait show every time)
  \cup { HandshakeLeg("status01", 1, r) : r \in {<<60, 300>>, <<250, 1000>>, <<400, 400>>, <<900, 300>>} }
  \cup { SdrModifiedForever(r) : r \in {<<100, 300>>, <<400, 400>>, <<900, 300>>} }
Header == [header |-> TRUE, family |-> "timing", defs |-> SessionDefs(S) @@ [ReqPlainT |-> ReqPlain(S)], stable |-> <<"SIK", "K1", "K2">>,
           prefixes |-> [hs |-> HandshakeSteps(S)]]
ASSUME PrintT(<<"HEADER", ToJson(Header)>>)
ASSUME \A s \in Scripts : PrintT(<<"SCRIPT", ToJson(s)>>)
ASSUME PrintT(<<"COUNT", ToJson([n |-> Cardinality(Scripts)])>>)
=============================================================================
