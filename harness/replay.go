package main

// Script interpreter: plays TLC-generated scenarios against the real library
// through the verif-tagged constructor and records an ndjson trace for TLC to
// validate. It understands steps, reactions, rules and terms - not IPMI.

import (
	"context"
	"encoding/json"
	"errors"
	"fmt"
	"net"
	"reflect"
	"sync"
	"sync/atomic"
	"time"

	"github.com/cenkalti/backoff/v4"
	"github.com/gebn/bmc"
	"github.com/gebn/bmc/pkg/dcmi"
	"github.com/gebn/bmc/pkg/ipmi"
	"github.com/google/gopacket"
)

// ---------------------------------------------------------------- transport

type memTransport struct {
	mu         sync.Mutex
	e          *env
	reacts     []M   // positional reactions for the current call
	next       int   // next positional reaction
	rules      []any // rule-driven reactions (persist across calls)
	state      map[string]int
	sock       [][]byte
	sockA      []any
	late       [][]byte
	lateA      []any
	buf        [512]byte
	trace      *[]M
	recipes    M // per-session verify recipes applied to every in-session tx
	inSess     bool
	cancel     context.CancelFunc
	curCtx     context.Context
	exact      bool // return exact-capacity slices (over-read => panic)
	poison     int  // fill the unused part of the receive buffer with this byte (-1: leave)
	txCount    int
	unscripted int
	callTx     int // datagrams transmitted during the current call
	txfails    int
	blockLost  bool // a lost reply blocks until the attempt's context is done, like a real socket read
	closed     bool
}

func (t *memTransport) Address() net.Addr {
	return &net.UDPAddr{IP: net.IPv4(127, 0, 0, 1), Port: 623}
}

func (t *memTransport) Close() error {
	t.closed = true
	return nil
}

func (t *memTransport) log(ev M) { *t.trace = append(*t.trace, ev) }

func (t *memTransport) deliver(d []byte) []byte {
	if t.exact {
		out := make([]byte, len(d))
		copy(out, d)
		if len(out) > 512 {
			out = out[:512:512]
		}
		return out
	}
	if t.poison >= 0 {
		for i := range t.buf {
			t.buf[i] = byte(t.poison)
		}
	}
	n := copy(t.buf[:], d)
	return t.buf[:n]
}

func (t *memTransport) Send(ctx context.Context, b []byte) ([]byte, error) {
	t.mu.Lock()
	defer t.mu.Unlock()
	if err := ctx.Err(); err != nil {
		// the real transport fails the write on an expired deadline: nothing is transmitted
		t.log(M{"ev": "txfail"})
		t.txfails++
		if t.txfails > 50 && t.cancel != nil {
			t.cancel() // a call that keeps trying with a dead context must not spin until the watchdog
		}
		return nil, err
	}
	t.curCtx = ctx
	r := t.onTx(b)
	return t.read(r)
}

// onTx records one received request and applies the script's reaction to it:
// captures, verify recipes, and the datagrams it makes the BMC send (queued in
// sock / late). It returns the reaction (empty when the script has none left).
func (t *memTransport) onTx(b []byte) M {
	t.txCount++
	t.callTx++
	if t.callTx == 3000 && t.cancel != nil {
		// a call that is still transmitting after this many datagrams is cut short (its context cancelled):
		// the trace stays small enough to validate, and a bound on the requests (exp.maxreqs) is still judged
		t.cancel()
	}
	t.e.req = append([]byte(nil), b...)
	ev := M{"ev": "tx", "raw": toInts(b), "n": t.txCount}
	if t.inSess && t.recipes != nil {
		for name, term := range t.recipes {
			if name == "plain" {
				ev["plain"] = toInts(t.e.eval(m(term)))
			} else {
				ev[name] = t.e.truth(m(term))
			}
		}
	}
	var r M
	if t.next < len(t.reacts) {
		r = t.reacts[t.next]
		t.next++
	} else if len(t.rules) > 0 {
		r = t.matchRule(ev)
	}
	if r != nil {
		if lets, ok := r["let"].(map[string]any); ok {
			for k, v := range lets {
				t.e.vars[k] = t.e.eval(m(v))
			}
		}
	}
	if r == nil {
		// the script has no reaction left: the reply is lost, and after a few such
		// transmissions the environment expires the context so that a call that
		// keeps re-sending cannot spin until the watchdog
		ev["unscripted"] = true
		t.unscripted++
		t.log(ev)
		if t.unscripted > 6 && t.cancel != nil {
			t.cancel()
		}
		return M{}
	}
	if cs, ok := r["captures"].([]any); ok {
		for _, c := range cs {
			t.e.eval(m(c))
		}
	}
	if cs, ok := r["checks"].([]any); ok {
		for _, c := range cs {
			ev[m(c)["name"].(string)] = t.e.truth(m(m(c)["t"]))
		}
	}
	if p, ok := r["plain"]; ok {
		ev["plain"] = toInts(t.e.eval(m(p)))
	}
	if lbl, ok := r["label"]; ok {
		ev["label"] = lbl
	}
	t.log(ev)
	if ds, ok := r["datagrams"].([]any); ok {
		for _, d := range ds {
			dm := m(d)
			bs := t.e.eval(m(dm["t"]))
			if dm["when"] == "late" {
				t.late, t.lateA = append(t.late, bs), append(t.lateA, dm["attrs"])
			} else {
				t.sock, t.sockA = append(t.sock, bs), append(t.sockA, dm["attrs"])
			}
		}
	}
	return r
}

// serveUDP plays the same script over a real socket: replies are written as soon
// as they are due; "late" ones after lateDelay (i.e. beyond the console's
// per-attempt timeout); a lost reply is simply never sent.
func (t *memTransport) serveUDP(c *net.UDPConn, lateDelay time.Duration) {
	buf := make([]byte, 2048)
	for {
		n, addr, err := c.ReadFromUDP(buf)
		if err != nil {
			return
		}
		t.mu.Lock()
		var r M
		func() {
			defer func() {
				if p := recover(); p != nil {
					t.log(M{"ev": "harnessError", "text": fmt.Sprint(p)})
					r = M{}
				}
			}()
			r = t.onTx(append([]byte(nil), buf[:n]...))
		}()
		now, late := t.sock, t.late
		for _, a := range t.sockA { // replies written to the socket right away: the library will read them
			if a != nil {
				t.log(M{"ev": "rx", "attrs": a, "sent": true})
			}
		}
		t.sock, t.sockA, t.late, t.lateA = nil, nil, nil, nil
		delay := time.Duration(0)
		if d, ok := r["delayMs"]; ok {
			delay = time.Duration(num(d)) * time.Millisecond
		}
		t.mu.Unlock()
		send := func(ds [][]byte) {
			for _, d := range ds {
				c.WriteToUDP(d, addr)
			}
		}
		if delay > 0 {
			time.AfterFunc(delay, func() { send(now) })
		} else {
			send(now)
		}
		if len(late) > 0 {
			time.AfterFunc(lateDelay, func() { send(late) })
		}
	}
}

// read performs the one read that follows every transmission.
func (t *memTransport) read(r M) ([]byte, error) {
	defer func() {
		// datagrams that arrive after this attempt's deadline wait in the socket
		t.sock, t.sockA = append(t.sock, t.late...), append(t.sockA, t.lateA...)
		t.late, t.lateA = nil, nil
	}()
	if r["cancel"] == true && t.cancel != nil {
		t.cancel()
	}
	if r["fail"] == "xerr" {
		t.log(M{"ev": "rx", "xerr": true})
		return nil, errors.New("injected transport error")
	}
	if len(t.sock) == 0 {
		t.log(M{"ev": "rx", "timeout": true})
		if t.blockLost && t.curCtx != nil {
			t.mu.Unlock()
			<-t.curCtx.Done()
			t.mu.Lock()
		}
		return nil, context.DeadlineExceeded
	}
	d, a := t.sock[0], t.sockA[0]
	t.sock, t.sockA = t.sock[1:], t.sockA[1:]
	rx := M{"ev": "rx", "len": len(d)}
	if a != nil {
		rx["attrs"] = a
	}
	t.log(rx)
	return t.deliver(d), nil
}

// matchRule: first rule whose `when` recipes all hold for the request wins.
// A rule may carry `count`/`state` effects so that scripted environment events
// are anchored to rule hits rather than datagram numbers.
func (t *memTransport) matchRule(ev M) M {
	for _, ru := range t.rules {
		r := m(ru)
		ok := true
		if g, has := r["ifstate"]; has { // {"name":..., "eq": n} or a list of them (conjunction)
			var conds []any
			if l, isl := g.([]any); isl {
				conds = l
			} else {
				conds = []any{g}
			}
			for _, c := range conds {
				gm := m(c)
				if lt, has := gm["lt"]; has { // counter below a bound
					if t.state[gm["name"].(string)] >= num(lt) {
						ok = false
					}
				} else if t.state[gm["name"].(string)] != num(gm["eq"]) {
					ok = false
				}
			}
		}
		if ok {
			if ws, has := r["when"].([]any); has {
				for _, w := range ws {
					if !t.e.truth(m(w)) {
						ok = false
						break
					}
				}
			}
		}
		if !ok {
			continue
		}
		if effs, has := r["effects"].([]any); has {
			for _, ef := range effs {
				em := m(ef)
				switch em["k"] {
				case "inc":
					t.state[em["name"].(string)]++
				case "set":
					t.state[em["name"].(string)] = num(em["v"])
				}
			}
		}
		if rn, has := r["rule"]; has {
			ev["rule"] = rn
		}
		return r
	}
	return nil
}

// ------------------------------------------------------------------ runner

type rawCmd struct {
	name string
	op   ipmi.Operation
	lun  ipmi.LUN
	body []byte
	rsp  rawRsp
}

type rawRsp struct {
	data []byte
}

func (r *rawRsp) CanDecode() gopacket.LayerClass    { return gopacket.LayerTypePayload }
func (r *rawRsp) NextLayerType() gopacket.LayerType { return gopacket.LayerTypePayload }
func (r *rawRsp) LayerPayload() []byte              { return nil }
func (r *rawRsp) DecodeFromBytes(d []byte, _ gopacket.DecodeFeedback) error {
	r.data = append([]byte(nil), d...)
	return nil
}
func (c *rawCmd) Name() string               { return c.name }
func (c *rawCmd) Operation() *ipmi.Operation { return &c.op }
func (c *rawCmd) RemoteLUN() ipmi.LUN        { return c.lun }
func (c *rawCmd) Request() gopacket.SerializableLayer {
	if c.body == nil {
		return nil
	}
	return gopacket.Payload(c.body)
}
func (c *rawCmd) Response() gopacket.DecodingLayer { return &c.rsp }

func errClass(err error) string {
	switch {
	case err == nil:
		return "nil"
	case errors.Is(err, bmc.ErrIncorrectPassword):
		return "ErrIncorrectPassword"
	case errors.Is(err, bmc.ErrNoSupportedCipherSuite):
		return "ErrNoSupportedCipherSuite"
	case errors.Is(err, bmc.ErrSensorReadingUnavailable):
		return "ErrSensorReadingUnavailable"
	case errors.Is(err, bmc.ErrSensorScanningDisabled):
		return "ErrSensorScanningDisabled"
	case errors.Is(err, context.DeadlineExceeded):
		return "DeadlineExceeded"
	case errors.Is(err, context.Canceled):
		return "Canceled"
	}
	return "other"
}

var metricsMode bool

type runner struct {
	hdr     M
	sc      M
	e       *env
	mt      *memTransport
	conn    *bmc.V2SessionlessTransport
	sess    bmc.Session
	v2sess  *bmc.V2Session
	readers map[string]bmc.SensorReader
	trace   []M
	wdog    time.Duration
	udp     bool
	extra   []*bmc.V2SessionlessTransport
	kept    map[string]ipmi.Command // command values reused across calls of one script (step option "keep")
	held    []heldValue             // results the caller still holds when later responses arrive
	heldMu  sync.Mutex
	v2opts  *bmc.V2SessionOpts      // one options value kept by the caller (step option "keepOpts")
	fsr     *ipmi.FullSensorRecord  // one record value decoded into repeatedly (NewSensorReader option "sharedRecord")
	pwBuf   []byte                  // credential buffers rewritten in place (script option "reuseCreds")
	kgBuf   []byte
}

// credArena models an application that reads all its credentials into one
// buffer and hands each connection a sub-slice of it (script option
// "credArena"): a credential's spare capacity is its neighbours' memory.
var credArena = struct {
	buf []byte
	off int64
}{buf: make([]byte, 1<<22)}

func arenaSlice(v []byte) []byte {
	if len(v) == 0 {
		return v
	}
	end := atomic.AddInt64(&credArena.off, int64(len(v)))
	if int(end) > len(credArena.buf) {
		return append([]byte(nil), v...)
	}
	s := credArena.buf[int(end)-len(v) : end]
	copy(s, v)
	return s
}

// heldValue is a result handed to the caller (a command's response struct, a
// convenience method's return value) together with what it looked like at that
// moment: the caller may read it at any later time, so nothing that arrives
// afterwards may change it.
type heldValue struct {
	label string
	v     reflect.Value
	first string
}

func (r *runner) hold(label string, v reflect.Value) {
	if label == "Get Channel Cipher Suites" || label == "GetChannelCipherSuites" {
		// documented to reference the decoded packet (pkg/ipmi/get_channel_cipher_suites.go: "should be appended
		// to a buffer before reading the next packet"): not a value the caller may keep
		return
	}
	b, _ := json.Marshal(project(v))
	r.heldMu.Lock()
	r.held = append(r.held, heldValue{label, v, string(b)})
	r.heldMu.Unlock()
}

func (r *runner) reportHeld() {
	r.heldMu.Lock()
	defer r.heldMu.Unlock()
	if len(r.held) == 0 {
		return
	}
	changed := []any{}
	for _, h := range r.held {
		b, _ := json.Marshal(project(h.v))
		if string(b) != h.first {
			changed = append(changed, h.label)
		}
	}
	r.ev(M{"ev": "held", "n": len(r.held), "changed": changed})
}

func keepBuf(buf *[]byte, v []byte) []byte {
	if len(v) > 0 && len(*buf) == len(v) {
		copy(*buf, v)
		return *buf
	}
	*buf = append([]byte(nil), v...)
	return *buf
}

func (r *runner) target(s M) bmc.Connection {
	if s["target"] == "sess" {
		if r.sess == nil {
			return nil
		}
		return r.sess
	}
	return r.conn
}

// invoke performs one API call and fills ret. It runs on its own goroutine so
// that a hang can be reported instead of blocking the worker.
func (r *runner) invoke(ctx context.Context, s M, ret M) {
	args, _ := s["args"].(map[string]any)
	api := s["api"].(string)
	setErr := func(err error) {
		ret["err"] = err != nil
		ret["errClass"] = errClass(err)
		if err != nil {
			ret["errText"] = err.Error()
		}
	}
	switch api {
	case "NewV2Session", "NewSession":
		var sess bmc.Session
		var err error
		r.mt.inSess = false
		r.e.memo = map[string][]byte{} // session keys are per session
		if api == "NewV2Session" {
			opts := &bmc.V2SessionOpts{}
			if s["keepOpts"] == true {
				// the caller keeps one options value and only assigns the fields the step lists
				if r.v2opts == nil {
					r.v2opts = &bmc.V2SessionOpts{}
				}
				opts = r.v2opts
			}
			if e := populate(reflect.ValueOf(opts).Elem(), args); e != nil {
				panic("harness: " + e.Error())
			}
			if o, ok := r.sc["opts"].(map[string]any); ok && o["reuseCreds"] == true {
				// the caller keeps one buffer per credential and rewrites it in place between establishments
				opts.Password = keepBuf(&r.pwBuf, opts.Password)
				opts.KG = keepBuf(&r.kgBuf, opts.KG)
			}
			if o, ok := r.sc["opts"].(map[string]any); ok && o["credArena"] == true {
				opts.Password = arenaSlice(opts.Password)
				opts.KG = arenaSlice(opts.KG)
			}
			var v2 *bmc.V2Session
			v2, err = r.conn.NewV2Session(ctx, opts)
			if v2 != nil {
				sess, r.v2sess = v2, v2
			}
		} else {
			opts := &bmc.SessionOpts{}
			if e := populate(reflect.ValueOf(opts).Elem(), args); e != nil {
				panic("harness: " + e.Error())
			}
			sess, err = r.conn.NewSession(ctx, opts)
			if v2, ok := sess.(*bmc.V2Session); ok {
				r.v2sess = v2
			}
		}
		setErr(err)
		if err == nil && sess != nil {
			r.sess = sess
			if r.v2sess != nil {
				ret["value"] = M{
					"LocalID": le32(r.v2sess.LocalID), "RemoteID": le32(r.v2sess.RemoteID),
					"AuthenticationAlgorithm":  int(r.v2sess.AuthenticationAlgorithm),
					"IntegrityAlgorithm":       int(r.v2sess.IntegrityAlgorithm),
					"ConfidentialityAlgorithm": int(r.v2sess.ConfidentialityAlgorithm),
					"SIK":                      toInts(r.v2sess.SIK), "K1": toInts(r.v2sess.K(1)), "K2": toInts(r.v2sess.K(2)),
				}
			}
		} else if err == nil {
			ret["nilSession"] = true
		}
	case "Cmd":
		ctor, ok := commands[s["cmd"].(string)]
		if !ok {
			panic("harness: unknown command " + s["cmd"].(string))
		}
		cmd := ctor()
		if s["keep"] == true {
			// the caller holds on to one command value and sends it again (as the library's own loops do)
			if r.kept == nil {
				r.kept = map[string]ipmi.Command{}
			}
			if old, ok := r.kept[s["cmd"].(string)]; ok {
				cmd = old
			} else {
				r.kept[s["cmd"].(string)] = cmd
			}
		}
		if args != nil {
			if e := populate(reflect.ValueOf(cmd).Elem(), args); e != nil {
				panic("harness: " + e.Error())
			}
		}
		tg := r.target(s)
		if tg == nil {
			ret["noTarget"] = true
			return
		}
		code, err := tg.SendCommand(ctx, cmd)
		setErr(err)
		ret["code"] = int(code)
		ret["cmdName"] = cmd.Name()
		if f := reflect.ValueOf(cmd).Elem().FieldByName("Rsp"); f.IsValid() {
			ret["value"] = project(f)
			if err == nil && s["keep"] != true {
				r.hold(cmd.Name(), f)
			}
		}
	case "Raw":
		cmd := &rawCmd{name: "Raw", op: ipmi.Operation{Function: ipmi.NetworkFunction(num(args["netfn"])),
			Command: ipmi.CommandNumber(num(args["cmd"]))}, lun: ipmi.LUN(num(args["lun"]))}
		if b, ok := args["body"]; ok {
			cmd.body = ints(b)
		}
		if b, ok := args["bodyCode"]; ok {
			cmd.op.Body = ipmi.BodyCode(num(b))
		}
		tg := r.target(s)
		if tg == nil {
			ret["noTarget"] = true
			return
		}
		code, err := tg.SendCommand(ctx, cmd)
		setErr(err)
		ret["code"] = int(code)
		ret["cmdName"] = cmd.Name()
		ret["value"] = M{"data": toInts(cmd.rsp.data)}
	case "Method":
		// any exported method of the connection/session taking (ctx, args...) and
		// returning (value, error) or error
		tg := r.target(s)
		if tg == nil {
			ret["noTarget"] = true
			return
		}
		var recv any = tg
		if s["on"] == "dcmi" {
			// the pkg/dcmi convenience wrappers around a session or a session-less connection
			if sess, ok := tg.(bmc.Session); ok {
				recv = dcmi.NewSessionCommander(sess)
			} else {
				recv = dcmi.NewSessionlessCommander(r.conn)
			}
		}
		mv := reflect.ValueOf(recv).MethodByName(s["method"].(string))
		if !mv.IsValid() {
			panic("harness: no method " + s["method"].(string))
		}
		in := []reflect.Value{reflect.ValueOf(ctx)}
		margs, _ := s["margs"].([]any)
		for i := 1; i < mv.Type().NumIn(); i++ {
			pv := reflect.New(mv.Type().In(i)).Elem()
			if i-1 < len(margs) {
				if e := populate(pv, margs[i-1]); e != nil {
					panic("harness: " + e.Error())
				}
			}
			in = append(in, pv)
		}
		out := mv.Call(in)
		last := out[len(out)-1]
		var err error
		if !last.IsNil() {
			err = last.Interface().(error)
		}
		setErr(err)
		if len(out) == 2 && err == nil {
			r.hold(s["method"].(string), out[0])
			ret["value"] = project(out[0])
		}
	case "Close":
		if r.sess == nil {
			ret["noTarget"] = true
			return
		}
		cerr := r.sess.Close(ctx)
		setErr(cerr)
		if cerr != nil && s["keepOnErr"] == true {
			// the caller keeps the session value after a Close that failed, and may try the Close again
			break
		}
		r.mt.inSess = false
		// the caller drops a closed session: "the session obtained" now means the one a later establishment returns
		r.sess, r.v2sess = nil, nil
	case "ConnClose":
		setErr(r.conn.Close())
		if o, ok := r.sc["opts"].(map[string]any); ok && o["closeTwice"] == true {
			// a second Close of the same connection (a deferred Close after an explicit one): an error at most
			_ = r.conn.Close()
		}
	case "DialV2": // the library's own dialler (hook-free): an unusable address fails, a loopback address succeeds
		var dopts []bmc.DialConfigOption
		if tm, ok := args["timeoutMs"]; ok {
			dopts = append(dopts, bmc.WithTimeout(time.Duration(num(tm))*time.Millisecond))
		}
		c, err := bmc.DialV2(args["addr"].(string), dopts...)
		setErr(err)
		if err == nil {
			r.extra = append(r.extra, c)
		}
	case "ExtraClose": // close the oldest connection opened with DialV2
		if len(r.extra) == 0 {
			ret["noTarget"] = true
			return
		}
		setErr(r.extra[0].Close())
		r.extra = r.extra[1:]
	case "RetrieveSupportedCipherSuites":
		recs, err := bmc.RetrieveSupportedCipherSuites(ctx, r.conn)
		setErr(err)
		if err == nil {
			ret["value"] = project(reflect.ValueOf(recs))
		} else if recs != nil {
			ret["partial"] = len(recs)
		}
	case "RetrieveSDRRepository":
		if r.sess == nil {
			ret["noTarget"] = true
			return
		}
		repo, err := bmc.RetrieveSDRRepository(ctx, r.sess)
		setErr(err)
		if err == nil {
			ret["value"] = project(reflect.ValueOf(repo))
		} else if repo != nil {
			ret["partial"] = len(repo)
		}
	case "DcmiGetSensorInfo":
		if r.sess == nil {
			ret["noTarget"] = true
			return
		}
		info, err := dcmi.GetSensorInfo(ctx, r.sess)
		setErr(err)
		if err == nil && info != nil {
			ret["value"] = project(reflect.ValueOf(info))
		}
	case "NewSensorReader":
		// args: {"fsr": <bytes of a Full Sensor Record body>, "name": key}
		fsr := &ipmi.FullSensorRecord{}
		if args["sharedRecord"] == true {
			// the caller decodes successive records into one FullSensorRecord value and builds a reader after each
			if r.fsr == nil {
				r.fsr = &ipmi.FullSensorRecord{}
			}
			fsr = r.fsr
		}
		if e := fsr.DecodeFromBytes(ints(args["fsr"]), gopacket.NilDecodeFeedback); e != nil {
			setErr(e)
			ret["stage"] = "decode"
			return
		}
		rd, err := bmc.NewSensorReader(fsr)
		setErr(err)
		if err == nil {
			r.readers[args["name"].(string)] = rd
		}
	case "SensorRead":
		rd := r.readers[args["name"].(string)]
		if rd == nil || r.sess == nil {
			ret["noTarget"] = true
			return
		}
		v, err := rd.Read(ctx, r.sess)
		setErr(err)
		if err == nil {
			ret["float"] = fmt.Sprintf("%.17g", v)
			if e, ok := s["exp"].(map[string]any); ok {
				if f, ok := e["formula"].(map[string]any); ok {
					ref, cls := evalFormula(f)
					ret["ref"] = fmt.Sprintf("%.17g", ref)
					ret["refClass"] = cls
					ret["floatOK"] = floatAgrees(v, ref)
				}
			}
		}
	default:
		panic("harness: unknown api " + api)
	}
}

func (r *runner) ev(e M) { r.trace = append(r.trace, e) }

func (r *runner) run() {
	hdr, sc := r.hdr, r.sc
	defs := M{}
	if d, ok := hdr["defs"].(map[string]any); ok {
		for k, v := range d {
			defs[k] = v
		}
	}
	if d, ok := sc["defs"].(map[string]any); ok {
		for k, v := range d {
			defs[k] = v
		}
	}
	stable, _ := hdr["stable"].([]any)
	r.e = newEnv(defs, stable)
	r.readers = map[string]bmc.SensorReader{}
	opts, _ := sc["opts"].(map[string]any)
	r.mt = &memTransport{e: r.e, trace: &r.trace, poison: -1, state: map[string]int{}}
	r.e.state = r.mt.state
	if opts != nil {
		if opts["exact"] == true {
			r.mt.exact = true
		}
		if opts["blockOnLost"] == true {
			r.mt.blockLost = true
		}
		if p, ok := opts["poison"]; ok {
			r.mt.poison = num(p)
		}
	}
	if rc, ok := sc["session"].(map[string]any); ok {
		r.mt.recipes = rc
	} else if rc, ok := hdr["session"].(map[string]any); ok {
		r.mt.recipes = rc
	}
	// the in-memory transport never waits, so the per-attempt timeout only matters when a script asks for real
	// time (blockOnLost / UDP, which set it explicitly); a generous default keeps a stalled goroutine on a loaded
	// machine from expiring an attempt's context before the attempt has even been sent
	timeout := 30 * time.Second
	if opts != nil {
		if ms, ok := opts["timeoutMs"]; ok {
			timeout = time.Duration(num(ms)) * time.Millisecond
		}
	}
	if metricsMode {
		r.ev(M{"ev": "metrics", "at": "start", "m": gatherMetrics()})
	}
	if sc["transport"] == "udp" {
		// hook-free: the library's own socket transport and back-off against a scripted BMC on the loopback
		laddr, _ := net.ResolveUDPAddr("udp", "127.0.0.1:0")
		srv, err := net.ListenUDP("udp", laddr)
		if err != nil {
			r.ev(M{"ev": "harnessError", "text": err.Error()})
			return
		}
		defer srv.Close()
		late := 2 * timeout
		if opts != nil {
			if ms, ok := opts["lateMs"]; ok {
				late = time.Duration(num(ms)) * time.Millisecond
			}
		}
		go r.mt.serveUDP(srv, late)
		c, err := bmc.DialV2(srv.LocalAddr().String(), bmc.WithTimeout(timeout))
		if err != nil {
			r.ev(M{"ev": "harnessError", "text": err.Error()})
			return
		}
		r.conn = c
		defer c.Close()
	} else {
		r.conn = bmc.NewV2SessionlessTransportVerif(r.mt, timeout, backoff.NewConstantBackOff(0))
	}
	r.udp = sc["transport"] == "udp"
	if metricsMode {
		r.ev(M{"ev": "metrics", "at": "dial", "m": gatherMetrics()})
	}

	var steps []any
	nprefix := 0
	npast := 0
	if opts != nil && opts["past"] == true {
		// the connection has a past (GenPast.tla): run before everything else, not traced, free to fail
		if ps, ok := hdr["past"].([]any); ok {
			steps = append(steps, ps...)
			npast = len(steps)
			nprefix = npast
		}
	}
	if p, ok := sc["prefix"].(string); ok && p != "" {
		steps = append(steps, m(hdr["prefixes"])[p].([]any)...)
		nprefix = len(steps)
	}
	steps = append(steps, sc["steps"].([]any)...)
	reset := M{"ev": "reset", "id": sc["id"]}
	if a, ok := sc["abstract"]; ok {
		reset["abstract"] = a
	}
	if a, ok := sc["info"]; ok {
		reset["info"] = a
	}
	r.ev(reset)

	for i := 0; i < len(steps); {
		s := m(steps[i])
		switch s["k"] {
		case "call":
			j := i + 1
			r.mt.reacts, r.mt.next = nil, 0
			for j < len(steps) && m(steps[j])["k"] == "react" {
				r.mt.reacts = append(r.mt.reacts, m(steps[j]))
				j++
			}
			quiet := i < nprefix && sc["tracePrefix"] != true
			mark := len(r.trace)
			ms := 5000
			expired := false
			keepAlive := false
			if c, ok := s["ctx"].(map[string]any); ok {
				if v, ok := c["ms"]; ok {
					ms = num(v)
				}
				expired = c["expired"] == true
				// the caller's context stays alive after the call returns (an application-wide context)
				keepAlive = c["keepAlive"] == true
			}
			ctx, cancel := context.WithTimeout(context.Background(), time.Duration(ms)*time.Millisecond)
			if expired {
				// a context whose deadline has already passed (C13 speaks of deadlines, not of cancellation)
				cancel()
				ctx, cancel = context.WithDeadline(context.Background(), time.Now().Add(-time.Second))
			}
			r.mt.cancel = cancel
			if r.udp {
				r.mt.cancel = nil // real time: only the context's own deadline ends a call
			}
			r.mt.unscripted = 0
			r.mt.callTx = 0
			r.mt.txfails = 0
			call := M{"ev": "call", "api": s["api"]}
			for _, k := range []string{"cmd", "method", "label", "target", "args", "margs", "exp"} {
				if v, ok := s[k]; ok {
					call[k] = v
				}
			}
			r.ev(call)
			ret := M{"ev": "ret", "api": s["api"]}
			done := make(chan struct{})
			t0 := time.Now()
			go func() {
				defer close(done)
				defer func() {
					if p := recover(); p != nil {
						if ps, ok := p.(string); ok && len(ps) > 8 && ps[:8] == "harness:" {
							ret["harnessError"] = ps
							return
						}
						ret["panic"] = fmt.Sprint(p)
					}
				}()
				r.invoke(ctx, s, ret)
			}()
			select {
			case <-done:
			case <-time.After(r.wdog):
				// the call goroutine is abandoned; snapshot what we have
				hang := M{"ev": "ret", "api": s["api"], "hang": true, "err": true, "errClass": "hang",
					"ctxMs": ms, "wdogMs": int(r.wdog / time.Millisecond)}
				if e, ok := s["exp"]; ok {
					hang["exp"] = e // a call that does not return is a failure of the scenario's own property too
				}
				r.mt.mu.Lock()
				r.ev(hang)
				r.mt.mu.Unlock()
				cancel()
				return
			}
			if keepAlive {
				defer cancel() // at the end of the script
			} else {
				cancel()
			}
			ret["ms"] = int(time.Since(t0) / time.Millisecond)
			if e, ok := s["exp"]; ok {
				ret["exp"] = e
			}
			if _, bad := ret["harnessError"]; bad {
				r.ev(ret)
				return
			}
			r.ev(ret)
			if (s["api"] == "NewV2Session" || s["api"] == "NewSession") && ret["err"] == false {
				r.mt.inSess = true
			}
			if metricsMode && !quiet {
				r.ev(M{"ev": "metrics", "at": "ret", "m": gatherMetrics()})
			}
			if quiet {
				// handshake events of a shared prefix are not part of this family's trace
				ok := ret["err"] == false && ret["panic"] == nil
				r.trace = r.trace[:mark]
				if i < npast {
					// whatever the past's calls returned is the past; only a crash there is worth a record
					if ret["panic"] != nil || ret["hang"] == true {
						r.ev(M{"ev": "pastBroke", "in": "past", "panic": ret["panic"], "api": s["api"]})
						return
					}
					ok = true
				}
				if !ok && npast > 0 {
					// the script's own session could not be established on a connection with a past
					r.ev(M{"ev": "pastBroke", "in": "prefix", "errText": ret["errText"], "panic": ret["panic"], "api": s["api"]})
					return
				}
				if !ok {
					r.ev(M{"ev": "prefixFailed", "errText": ret["errText"], "panic": ret["panic"]})
					return
				}
				if metricsMode {
					r.ev(M{"ev": "metrics", "at": "prefix", "m": gatherMetrics()})
				}
			}
			i = j
		case "rules":
			r.mt.rules, _ = s["rules"].([]any)
			if st, ok := s["state"].(map[string]any); ok {
				for k, v := range st {
					r.mt.state[k] = num(v)
				}
			}
			i++
		case "expectSession":
			ok := r.v2sess != nil
			got := M{}
			if ok {
				for name, f := range map[string][]byte{"sik": r.v2sess.SIK, "k1": r.v2sess.K(1), "k2": r.v2sess.K(2)} {
					want := r.e.eval(m(s[name]))
					got[name+"OK"] = string(want) == string(f)
				}
			}
			evn := M{"ev": "session", "have": ok}
			for k, v := range got {
				evn[k] = v
			}
			r.ev(evn)
			i++
		case "inject":
			bs := r.e.eval(m(s["t"]))
			r.mt.sock, r.mt.sockA = append(r.mt.sock, bs), append(r.mt.sockA, s["attrs"])
			r.ev(M{"ev": "inject", "attrs": s["attrs"]})
			i++
		case "metrics":
			r.ev(M{"ev": "metrics", "m": gatherMetrics()})
			i++
		default:
			i++
		}
	}
	r.reportHeld()
}

func runScript(hdr, sc M, wdog time.Duration) []M {
	r := &runner{hdr: hdr, sc: sc, wdog: wdog}
	func() {
		defer func() {
			if p := recover(); p != nil {
				r.ev(M{"ev": "harnessError", "text": fmt.Sprint(p)})
			}
		}()
		r.run()
	}()
	return r.trace
}
