------------------------------ MODULE GenSensor ------------------------------
(* Scenarios for C15: a session in which sensor readers are built from Full
   Sensor Records and read against scripted Get Sensor Reading responses. *)
EXTENDS Crypto, Fsr, Sensor, Json, FiniteSets, TLC

CONSTANTS Seed, Family, Tier
Full == Tier = "thorough"
S == [authAlg |-> "sha1", integAlg |-> "sha1", authNum |-> 1, integNum |-> 1, confNum |-> 1, icvLen |-> 12, integLen |-> 12,
      uname |-> <<97>>, pw |-> <<98, 99>>, kg |-> <<>>, priv |-> 4, lookup |-> TRUE, bmcSid |-> <<7, 7, 7, 2>>,
      rc |-> [i \in 1..16 |-> (i * 5) % 256], guid |-> [i \in 1..16 |-> (90 + i) % 256]]
Rnd(k, i) == ((k + 3) * 7919 + (i + 1) * 104729 + (Seed + 1) * 1299709 + (k * i) * 31) % 65536

Rec(lin, fmt, mM, bB, kB, kR, lun, num) ==
  [FsrBase(7) EXCEPT !.Linearisation = lin, !.AnalogDataFormat = fmt, !.M = mM, !.B = bB, !.BExp = kB, !.RExp = kR, !.OwnerLUN = lun, !.Number = num]
NewReader(name, r, ok) ==
  [k |-> "call", api |-> "NewSensorReader", label |-> "new", args |-> [fsr |-> FsrEnc(r), name |-> name],
   exp |-> [prop |-> "C15", outcome |-> IF ok THEN "noerror" ELSE "errclass", errclass |-> "other"]]
\* Get Sensor Reading (Sensor/Event 04h / 2Dh): request data = sensor number; the request goes to the sensor's owner LUN,
\* and the response comes back from that LUN
ReadCall(name, r, raw, evt, scan, unavail) ==
  [k |-> "call", api |-> "SensorRead", label |-> "read", target |-> "sess", args |-> [name |-> name],
   exp |-> [prop |-> "C15", rslun |-> r.OwnerLUN,
            reqs |-> << [pt |-> 0, netfn |-> 4, cmd |-> 45, data |-> <<r.Number>>] >>]
           @@ (IF ReadOutcome(scan, unavail) = "value"
               THEN [outcome |-> "float", formula |-> Formula(r.Linearisation, r.AnalogDataFormat, raw, r.M, r.B, r.BExp, r.RExp)]
               ELSE [outcome |-> "errclass", errclass |-> ReadOutcome(scan, unavail)])]
ReadReact(r, j, raw, evt, scan, unavail) ==
  [React0 EXCEPT !.datagrams = << Dg(SessPacket(S, LE32s(j), MsgRspE(EchoS, 5, r.OwnerLUN, 45, 0, <<raw, FlagByte(evt, scan, unavail), 192>>),
                                                [i \in 1..16 |-> (i + j) % 256]), [kind |-> "reading"]) >>]
Script(id, steps, fam) == [id |-> id, prefix |-> "hs", info |-> [family |-> fam, insess |-> TRUE, integLen |-> S.integLen, bmcSid |-> S.bmcSid], steps |-> steps]

\* all 256 raw bytes for one (linearisation, format) pair and one set of factors
Sweep(id, lin, fmt, mM, bB, kB, kR, lun) ==
  LET r == Rec(lin, fmt, mM, bB, kB, kR, lun, 17 + lin) IN
  Script(id, << NewReader("s", r, TRUE) >> \o Flatten([q \in 1..256 |-> << ReadCall("s", r, q - 1, TRUE, TRUE, FALSE), ReadReact(r, q, q - 1, TRUE, TRUE, FALSE) >>]), "sweep")
Sweeps == { Sweep("sweep-" \o ToString(lin) \o "-" \o ToString(fmt), lin, fmt, 1 + ((lin * 37 + fmt * 11 + Seed) % 200), ((lin * 53 + Seed) % 400) - 200,
                  ((lin + fmt) % 5) - 2, ((lin * 3 + fmt) % 5) - 3, (lin + fmt) % 4) : lin \in 0..11, fmt \in 0..2 }
\* refusals: every linearisation code x every analog format
RefusalScripts == { Script("refuse-" \o ToString(fmt), [i \in 1..128 |-> NewReader("r" \o ToString(i - 1), Rec(i - 1, fmt, 1, 0, 0, 0, 0, 1), Readable(i - 1, fmt))], "refuse") : fmt \in 0..3 }
\* flags: all 8 combinations x the linear and one linearised reader
FlagScripts == { LET r == Rec(lin, 0, 2, 3, 0, 0, 0, 9)
                     combos == {<<e, sc, u>> : e \in BOOLEAN, sc \in BOOLEAN, u \in BOOLEAN}
                     seqc == [j \in 1..8 |-> <<((j - 1) % 2) = 1, (((j - 1) \div 2) % 2) = 1, (((j - 1) \div 4) % 2) = 1>>] IN
                 Script("flags-" \o ToString(lin), << NewReader("s", r, TRUE) >>
                          \o Flatten([j \in 1..8 |-> << ReadCall("s", r, 100, seqc[j][1], seqc[j][2], seqc[j][3]), ReadReact(r, j, 100, seqc[j][1], seqc[j][2], seqc[j][3]) >>]), "flags")
                 : lin \in {0, 8} }
\* a flagged response (reading unavailable / scanning disabled) carrying another raw byte, then a good response with that
\* same byte: the value is that of the byte just read
FlagHistory == { LET r == Rec(lin, 1, 3, 7, 0, 0, 0, 12)
                     st == << <<200, TRUE, FALSE>>, <<9, TRUE, TRUE>>, <<9, TRUE, FALSE>>, <<77, FALSE, FALSE>>, <<77, TRUE, FALSE>>, <<0, TRUE, TRUE>>, <<0, TRUE, FALSE>> >> IN
                 Script("flaghist-" \o ToString(lin), << NewReader("h", r, TRUE) >>
                          \o Flatten([j \in 1..Len(st) |-> << ReadCall("h", r, st[j][1], TRUE, st[j][2], st[j][3]), ReadReact(r, j, st[j][1], TRUE, st[j][2], st[j][3]) >>]), "flags")
                 : lin \in {0, 2, 8} }
\* factors: M and B boundary-complete over 10 bits, all 16 x 16 exponent pairs, a few raw bytes each
Bound10 == {-512, -511, -257, -256, -255, -129, -128, -127, -2, -1, 0, 1, 2, 127, 128, 129, 255, 256, 257, 510, 511}
\* (one reader per factor value: new reader, then reads)
FactorScript(id, fmt, lin, setM, setB, k1s, k2s) ==
  LET combos == { <<m, b, k1, k2>> : m \in setM, b \in setB, k1 \in k1s, k2 \in k2s }
      RECURSIVE Steps(_, _)
      Steps(cs, j) == IF cs = {} THEN <<>> ELSE
          LET c == CHOOSE x \in cs : TRUE
              r == Rec(lin, fmt, c[1], c[2], c[3], c[4], 0, 33)
              raws == <<(j * 37) % 256, 255 - ((j * 11) % 256)>> IN
          << NewReader("f", r, TRUE), ReadCall("f", r, raws[1], TRUE, TRUE, FALSE), ReadReact(r, 2 * j, raws[1], TRUE, TRUE, FALSE),
             ReadCall("f", r, raws[2], FALSE, TRUE, FALSE), ReadReact(r, 2 * j + 1, raws[2], FALSE, TRUE, FALSE) >> \o Steps(cs \ {c}, j + 1)
  IN Script(id, Steps(combos, 1), "factors")
Factors == { FactorScript("factors-M-" \o ToString(fmt), fmt, 0, Bound10, {0, -7}, {0}, {0, -2}) : fmt \in 0..2 }
           \cup { FactorScript("factors-B-" \o ToString(fmt), fmt, 0, {1, -3}, Bound10, {0, 1}, {0}) : fmt \in 0..2 }
           \cup { FactorScript("factors-K-" \o ToString(lin), 2, lin, {3}, {-17}, -8..7, -8..7) : lin \in {0, 9} }
           \cup { FactorScript("factors-BK-" \o ToString(fmt), fmt, 0, {1, 511, -512}, {-512, -511, -215, -214, 214, 215, 496, 511}, {5, 6, 7}, {-8, 0, 7}) : fmt \in {0, 2} }
           \cup (IF Full THEN { FactorScript("factors-MB", 1, 0, Bound10, Bound10, {-1}, {1}) } ELSE {})

\* a converted reading of exactly zero as the first (and a later) reading of a freshly built reader, for every
\* linearisation: ln, log10, log2 give -infinity, 1/x +infinity, e^x, 10^x, 2^x give 1 - none of them 0
ZeroScripts ==
  { LET r == Rec(lin, v[1], v[2], v[3], 0, 0, 0, 40 + lin)
        raws == << v[4], v[4], (v[4] + 9) % 256, v[4] >> IN
    Script("zero-" \o ToString(lin) \o "-" \o ToString(v[1]) \o "-" \o ToString(v[2]) \o "-" \o ToString(v[4]),
           << NewReader("z", r, TRUE) >> \o Flatten([j \in 1..4 |-> << ReadCall("z", r, raws[j], TRUE, TRUE, FALSE), ReadReact(r, j, raws[j], TRUE, TRUE, FALSE) >>]), "zero")
    \* <<format, M, B, raw>>: unsigned 0; one's complement +0 and -0; two's complement 0 and an offset that cancels (2 * -5 + 10)
    : lin \in 0..11, v \in { <<0, 3, 0, 0>>, <<1, 3, 0, 0>>, <<1, 3, 0, 255>>, <<2, 3, 0, 0>>, <<2, 2, 10, 251>>, <<0, 1, -7, 7>> } }
\* readers built one after another from records decoded into one shared record value: each reader must keep converting
\* with the factors, format and linearisation of the record it was built from
SharedScripts ==
  { LET ra == Rec(la, fa, 3 + k, 10 + k, 1, -1, 0, 60)
        rb == Rec(lb, fb, 100 + 7 * k, -200 + k, -2, 2, 0, 61)
        rc == Rec(0, 0, 1, 0, 0, 0, 0, 62)
        nr(name, r) == [NewReader(name, r, TRUE) EXCEPT !.args = @ @@ [sharedRecord |-> TRUE]]
        raws == << 200, 17, 255 >> IN
    Script("shared-" \o ToString(k) \o "-" \o ToString(la) \o ToString(fa) \o ToString(lb) \o ToString(fb),
           << nr("a", ra), nr("b", rb), nr("c", rc) >>
           \o Flatten([j \in 1..3 |-> << ReadCall("a", ra, raws[j], TRUE, TRUE, FALSE), ReadReact(ra, 3 * j - 2, raws[j], TRUE, TRUE, FALSE),
                                         ReadCall("b", rb, raws[j], TRUE, TRUE, FALSE), ReadReact(rb, 3 * j - 1, raws[j], TRUE, TRUE, FALSE),
                                         ReadCall("c", rc, raws[j], TRUE, TRUE, FALSE), ReadReact(rc, 3 * j, raws[j], TRUE, TRUE, FALSE) >>]), "shared")
    : k \in 1..3, la \in {0, 7, 9}, fa \in {0, 2}, lb \in {0, 1}, fb \in {1} }
\* the same readers from records whose reserved bits are set (among them bit 7 of the linearisation byte)
ReservedScripts ==
  { LET r == [Rec(lin, fmt, 5, -20, 0, -1, lin % 4, 70 + lin) EXCEPT !.res = rs]
        raws == << 0, 128, 255, 66 >> IN
    Script("reserved-" \o ToString(lin) \o "-" \o ToString(fmt) \o "-" \o ToString(rs.lin) \o ToString(rs.tl),
           << NewReader("v", r, TRUE) >> \o Flatten([j \in 1..4 |-> << ReadCall("v", r, raws[j], TRUE, TRUE, FALSE), ReadReact(r, j, raws[j], TRUE, TRUE, FALSE) >>]), "reserved")
    : lin \in 0..11, fmt \in {0, 2}, rs \in {AllRes, [NoRes EXCEPT !.lin = 1]} }
\* C10 for a command addressed to a non-zero LUN: the responder answers from that LUN, first with node busy / timeout,
\* then with the reading; the library must re-send the same request and return the first final answer
BusyReact(r, j, cc) ==
  [React0 EXCEPT !.datagrams = << Dg(SessPacket(S, LE32s(j), MsgRspE(EchoS, 5, r.OwnerLUN, 45, cc, <<>>), [i \in 1..16 |-> (i + j) % 256]), [kind |-> "busy"]) >>]
LunScripts ==
  { LET r == Rec(0, 0, 2, 1, 0, 0, lun, 50 + lun)
        one == ReadCall("l", r, 77, TRUE, TRUE, FALSE)
        rq == one.exp.reqs[1]
        call(n) == [one EXCEPT !.exp = [@ EXCEPT !.prop = "C10", !.reqs = [i \in 1..n |-> rq]]] IN
    Script("lun-" \o ToString(lun),
           << NewReader("l", r, TRUE), call(1), ReadReact(r, 1, 77, TRUE, TRUE, FALSE),
              call(2), BusyReact(r, 2, 192), ReadReact(r, 3, 77, TRUE, TRUE, FALSE),
              call(3), BusyReact(r, 4, 195), BusyReact(r, 5, 192), ReadReact(r, 6, 77, TRUE, TRUE, FALSE) >>, "lun") : lun \in 0..3 }
\* a BMC that answers Get Sensor Reading with a normal completion code and no data at all (some do for absent components):
\* there is no reading in such a response - an error, on a fresh reader and after good readings alike; the next good
\* response is converted as usual
EmptyReact(r, j, len) ==
  [React0 EXCEPT !.datagrams = << Dg(SessPacket(S, LE32s(j), MsgRspE(EchoS, 5, r.OwnerLUN, 45, 0, [i \in 1..len |-> 100 + i]), [i \in 1..16 |-> (i + j) % 256]), [kind |-> "reading-short"]) >>]
EmptyScripts ==
  { LET r == Rec(lin, 0, 2, 5, 0, 0, 0, 33 + lin)
        bad == [ReadCall("e", r, 0, TRUE, TRUE, FALSE) EXCEPT !.exp = [prop |-> "C15", rslun |-> 0, outcome |-> "errclass", errclass |-> "other", reqs |-> @.reqs]]
        first == IF goodFirst THEN << ReadCall("e", r, 100, TRUE, TRUE, FALSE), ReadReact(r, 1, 100, TRUE, TRUE, FALSE) >> ELSE <<>>
        j0 == Len(first) \div 2 IN
    Script("empty-" \o ToString(lin) \o "-" \o ToString(n) \o (IF goodFirst THEN "-after" ELSE "-fresh"),
           << NewReader("e", r, TRUE) >> \o first \o << bad, EmptyReact(r, j0 + 1, n), ReadCall("e", r, 7, TRUE, TRUE, FALSE), ReadReact(r, j0 + 2, 7, TRUE, TRUE, FALSE) >>, "empty")
    : lin \in {0, 1, 7}, n \in {0, 1}, goodFirst \in BOOLEAN }
\* a command that is retransmitted more often than any narrow counter can count (255 .. 300 node-busy answers) and is then
\* answered, followed by another command: every one of the datagrams takes the next sequence number (C09), carries the
\* same request (C06), and the first final answer is returned (C10)
LongBusyScripts ==
  { LET r == Rec(0, 0, 2, 1, 0, 0, lun, 60 + lun)
        one == ReadCall("l", r, 91, TRUE, TRUE, FALSE)
        rq == one.exp.reqs[1]
        call(m) == [one EXCEPT !.exp = [@ EXCEPT !.prop = "C10", !.reqs = [i \in 1..m |-> rq]]] IN
    Script("longbusy-" \o ToString(lun) \o "-" \o ToString(n),
           << NewReader("l", r, TRUE), call(n + 1) >> \o [j \in 1..n |-> BusyReact(r, j, IF j % 7 = 0 THEN 195 ELSE 192)] \o << ReadReact(r, n + 1, 91, TRUE, TRUE, FALSE),
              call(1), ReadReact(r, n + 2, 91, TRUE, TRUE, FALSE), call(2), BusyReact(r, n + 3, 192), ReadReact(r, n + 4, 91, TRUE, TRUE, FALSE) >>, "lun")
    : lun \in {0, 2}, n \in {254, 255, 256, 257, 300} }
Scripts == CASE Family = "sweep" -> Sweeps [] Family = "misc" -> RefusalScripts \cup FlagScripts \cup FlagHistory \cup Factors \cup ZeroScripts \cup SharedScripts \cup ReservedScripts \cup EmptyScripts [] Family = "lun" -> LunScripts \cup LongBusyScripts
Header == [header |-> TRUE, family |-> "sensor", defs |-> SessionDefs(S), stable |-> <<"SIK", "kB", "kR">>,
           session |-> SessionRecipes(S), prefixes |-> [hs |-> HandshakeSteps(S)]]
ASSUME PrintT(<<"HEADER", ToJson(Header)>>)
ASSUME \A s \in Scripts : PrintT(<<"SCRIPT", ToJson(s)>>)
ASSUME PrintT(<<"COUNT", ToJson([n |-> Cardinality(Scripts)])>>)
=============================================================================
