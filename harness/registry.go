package main

// Name -> constructor tables. This is the only place where library type names
// appear in the harness; everything about their wire formats comes from TLC.

import (
	"github.com/gebn/bmc/pkg/dcmi"
	"github.com/gebn/bmc/pkg/ipmi"
	"github.com/google/gopacket"
)

var commands = map[string]func() ipmi.Command{
	"GetDeviceID":                          func() ipmi.Command { return &ipmi.GetDeviceIDCmd{} },
	"GetChassisStatus":                     func() ipmi.Command { return &ipmi.GetChassisStatusCmd{} },
	"ChassisControl":                       func() ipmi.Command { return &ipmi.ChassisControlCmd{} },
	"GetSystemGUID":                        func() ipmi.Command { return &ipmi.GetSystemGUIDCmd{} },
	"GetChannelAuthenticationCapabilities": func() ipmi.Command { return &ipmi.GetChannelAuthenticationCapabilitiesCmd{} },
	"GetChannelCipherSuites":               func() ipmi.Command { return &ipmi.GetChannelCipherSuitesCmd{} },
	"GetSessionInfo":                       func() ipmi.Command { return &ipmi.GetSessionInfoCmd{} },
	"SetSessionPrivilegeLevel":             func() ipmi.Command { return &ipmi.SetSessionPrivilegeLevelCmd{} },
	"CloseSession":                         func() ipmi.Command { return &ipmi.CloseSessionCmd{} },
	"GetSDRRepositoryInfo":                 func() ipmi.Command { return &ipmi.GetSDRRepositoryInfoCmd{} },
	"ReserveSDRRepository":                 func() ipmi.Command { return &ipmi.ReserveSDRRepositoryCmd{} },
	"GetSDR":                               func() ipmi.Command { return &ipmi.GetSDRCmd{} },
	"GetSensorReading":                     func() ipmi.Command { return &ipmi.GetSensorReadingCmd{} },
	"GetPowerReading":                      func() ipmi.Command { return &dcmi.GetPowerReadingCmd{} },
	"GetDCMISensorInfo":                    func() ipmi.Command { return &dcmi.GetDCMISensorInfoCmd{} },
	"DCMICapsSupportedCapabilities": func() ipmi.Command {
		return dcmi.NewGetDCMICapabilitiesInfoSupportedCapabilitiesCmd()
	},
	"DCMICapsMandatoryPlatformAttrs": func() ipmi.Command {
		return dcmi.NewGetDCMICapabilitiesInfoMandatoryPlatformAttrsCmd()
	},
	"DCMICapsOptionalPlatformAttrs": func() ipmi.Command {
		return dcmi.NewGetDCMICapabilitiesInfoOptionalPlatformAttrsCmd()
	},
	"DCMICapsManageabilityAccessAttrs": func() ipmi.Command {
		return dcmi.NewGetDCMICapabilitiesInfoManageabilityAccessAttrsCmd()
	},
	"DCMICapsEnhancedSystemPowerStatisticsAttrs": func() ipmi.Command {
		return dcmi.NewGetDCMICapabilitiesInfoEnhancedSystemPowerStatisticsAttrsCmd()
	},
}

// decodable layers by name (C05, C07, C17, C20). Layers that need a key or an
// algorithm are built by the vector runner, not here.
type decoder interface {
	DecodeFromBytes([]byte, gopacket.DecodeFeedback) error
}

var layerCtors = map[string]func() decoder{
	"Message":             func() decoder { return &ipmi.Message{} },
	"V1Session":           func() decoder { return &ipmi.V1Session{} },
	"V2Session":           func() decoder { return &ipmi.V2Session{} },
	"SessionSelector":     func() decoder { return &ipmi.SessionSelector{} },
	"OpenSessionRsp":      func() decoder { return &ipmi.OpenSessionRsp{} },
	"RAKPMessage1":        func() decoder { return &ipmi.RAKPMessage1{} },
	"RAKPMessage2":        func() decoder { return &ipmi.RAKPMessage2{} },
	"RAKPMessage4":        func() decoder { return &ipmi.RAKPMessage4{} },
	"GetDeviceIDRsp":      func() decoder { return &ipmi.GetDeviceIDRsp{} },
	"GetChassisStatusRsp": func() decoder { return &ipmi.GetChassisStatusRsp{} },
	"GetSystemGUIDRsp":    func() decoder { return &ipmi.GetSystemGUIDRsp{} },
	"GetChannelAuthenticationCapabilitiesRsp": func() decoder { return &ipmi.GetChannelAuthenticationCapabilitiesRsp{} },
	"GetChannelCipherSuitesRsp":               func() decoder { return &ipmi.GetChannelCipherSuitesRsp{} },
	"GetSessionInfoRsp":                       func() decoder { return &ipmi.GetSessionInfoRsp{} },
	"SetSessionPrivilegeLevelRsp":             func() decoder { return &ipmi.SetSessionPrivilegeLevelRsp{} },
	"GetSDRRepositoryInfoRsp":                 func() decoder { return &ipmi.GetSDRRepositoryInfoRsp{} },
	"ReserveSDRRepositoryRsp":                 func() decoder { return &ipmi.ReserveSDRRepositoryRsp{} },
	"GetSDRRsp":                               func() decoder { return &ipmi.GetSDRRsp{} },
	"SDR":                                     func() decoder { return &ipmi.SDR{} },
	"FullSensorRecord":                        func() decoder { return &ipmi.FullSensorRecord{} },
	"GetSensorReadingRsp":                     func() decoder { return &ipmi.GetSensorReadingRsp{} },
	"GetPowerReadingRsp":                      func() decoder { return &dcmi.GetPowerReadingRsp{} },
	"GetDCMISensorInfoRsp":                    func() decoder { return &dcmi.GetDCMISensorInfoRsp{} },
	"DCMICapsSupportedCapabilitiesRsp": func() decoder {
		return &dcmi.GetDCMICapabilitiesInfoSupportedCapabilitiesRsp{}
	},
	"DCMICapsMandatoryPlatformAttrsRsp": func() decoder {
		return &dcmi.GetDCMICapabilitiesInfoMandatoryPlatformAttrsRsp{}
	},
	"DCMICapsOptionalPlatformAttrsRsp": func() decoder {
		return &dcmi.GetDCMICapabilitiesInfoOptionalPlatformAttrsRsp{}
	},
	"DCMICapsManageabilityAccessAttrsRsp": func() decoder {
		return &dcmi.GetDCMICapabilitiesInfoManageabilityAccessAttrsRsp{}
	},
	"DCMICapsEnhancedSystemPowerStatisticsAttrsRsp": func() decoder {
		return &dcmi.GetDCMICapabilitiesInfoEnhancedSystemPowerStatisticsAttrsRsp{}
	},
}

// serialisable request layers by name (C06, C08 direct vectors)
var serialCtors = map[string]func() gopacket.SerializableLayer{
	"Message":        func() gopacket.SerializableLayer { return &ipmi.Message{} },
	"V1Session":      func() gopacket.SerializableLayer { return &ipmi.V1Session{} },
	"V2Session":      func() gopacket.SerializableLayer { return &ipmi.V2Session{} },
	"OpenSessionReq": func() gopacket.SerializableLayer { return &ipmi.OpenSessionReq{} },
	"RAKPMessage1":   func() gopacket.SerializableLayer { return &ipmi.RAKPMessage1{} },
	"RAKPMessage3":   func() gopacket.SerializableLayer { return &ipmi.RAKPMessage3{} },
	"GetChannelAuthenticationCapabilitiesReq": func() gopacket.SerializableLayer { return &ipmi.GetChannelAuthenticationCapabilitiesReq{} },
	"GetChannelCipherSuitesReq":               func() gopacket.SerializableLayer { return &ipmi.GetChannelCipherSuitesReq{} },
	"GetSessionInfoReq":                       func() gopacket.SerializableLayer { return &ipmi.GetSessionInfoReq{} },
	"SetSessionPrivilegeLevelReq":             func() gopacket.SerializableLayer { return &ipmi.SetSessionPrivilegeLevelReq{} },
	"CloseSessionReq":                         func() gopacket.SerializableLayer { return &ipmi.CloseSessionReq{} },
	"ChassisControlReq":                       func() gopacket.SerializableLayer { return &ipmi.ChassisControlReq{} },
	"GetSDRReq":                               func() gopacket.SerializableLayer { return &ipmi.GetSDRReq{} },
	"GetSensorReadingReq":                     func() gopacket.SerializableLayer { return &ipmi.GetSensorReadingReq{} },
	"GetPowerReadingReq":                      func() gopacket.SerializableLayer { return &dcmi.GetPowerReadingReq{} },
	"GetDCMISensorInfoReq":                    func() gopacket.SerializableLayer { return &dcmi.GetDCMISensorInfoReq{} },
}
