------------------------------ MODULE GenForge ------------------------------
(* C04 scenarios: within an established session the BMC's first reply to a
   command is a tampered or forged datagram carrying value A; the second is an
   authentic reply carrying a different value B.  Tampering = every single-bit
   flip and every truncation of the authentic encoding of A; forgeries = the
   catalogue of the property (flag cleared, empty / short / random AuthCode,
   wrong key, wrong session ID, unsigned plaintext, every bad-pad form).

   Allowed results: B, or an error; value A itself only for a flip outside the
   range the AuthCode protects (the four RMCP header bytes).  Anything else -
   in particular A returned from a datagram without a valid AuthCode - is a
   violation. *)
EXTENDS Crypto, Json, TLC, FiniteSets

CONSTANTS Seed, AuthNum, IntegNum, Tier

AuthOf(n)  == CHOOSE a \in AuthAlgs : a.num = n
IntegOf(n) == CHOOSE a \in IntegAlgs : a.num = n
S == [authAlg |-> AuthOf(AuthNum).alg, integAlg |-> IntegOf(IntegNum).alg,
      authNum |-> AuthNum, integNum |-> IntegNum, confNum |-> 1,
      icvLen |-> AuthOf(AuthNum).icv, integLen |-> IntegOf(IntegNum).len,
      uname |-> <<97, 100, 109, 105, 110>>, pw |-> [i \in 1..12 |-> (i * 17 + Seed) % 256], kg |-> <<>>,
      \* (a BMC that hands out session IDs from 1 - the same number a console may well pick for its own - in every other run)
      priv |-> 4, lookup |-> TRUE, bmcSid |-> IF (Seed + AuthNum) % 2 = 0 THEN <<1, 0, 0, 0>> ELSE <<33, 67, 101, 135>>,
      rc |-> [i \in 1..16 |-> (i * 11 + 3 + Seed) % 256], guid |-> [i \in 1..16 |-> (100 + i) % 256]]

\* the command: a raw Storage command; the response data is the value
NetFn == 10   Cmd == 17
ReqBody(L) == [i \in 1..L |-> (i * 3) % 256]
ValA(L) == [i \in 1..(4 + (L % 7)) |-> 160 + i]
ValB(L) == [i \in 1..(4 + (L % 7)) |-> 176 + i]
Iv(k) == [i \in 1..16 |-> (i * 13 + k * 29 + Seed) % 256]
Msg(val) == MsgRspE(EchoS, NetFn + 1, 0, Cmd, 0, val)
AuthenticA(L) == SessPacket(S, LE32s(1), Msg(ValA(L)), Iv(1))
AuthenticB(L) == SessPacket(S, LE32s(2), Msg(ValB(L)), Iv(2))
\* total length of an authentic packet for a message of n bytes
PlainLen(n) == n + ConfPadLen(n) + 1
PktLen(n) == LET pl == 16 + PlainLen(n) IN 4 + 12 + pl + IntegPadLen(12 + pl) + 2 + S.integLen
MsgLen(val) == 8 + Len(val)

Call(L, allowA, name) ==
  [k |-> "call", api |-> "Raw", label |-> name, target |-> "sess",
   args |-> [netfn |-> NetFn, cmd |-> Cmd, lun |-> 0, body |-> ReqBody(L)],
   exp |-> [prop |-> "C04", outcome |-> "oneofOrError",
            values |-> IF allowA THEN << [data |-> ValB(L)], [data |-> ValA(L)] >> ELSE << [data |-> ValB(L)] >>]]
First(t, kind) == [React0 EXCEPT !.datagrams = << Dg(t, [kind |-> kind]) >>]
Second(L) == [React0 EXCEPT !.datagrams = << Dg(AuthenticB(L), [kind |-> "authenticB"]) >>] @@ [cancel |-> TRUE]
Script(id, L, t, kind, allowA) ==
  [id |-> id, prefix |-> "hs", info |-> [family |-> "forge", insess |-> TRUE, integLen |-> S.integLen, bmcSid |-> S.bmcSid, kind |-> kind],
   steps |-> << Call(L, allowA, kind), First(t, kind), Second(L) >>]

\* ------------------------------------------------------------------ tampering
Flips(L) == LET n == PktLen(MsgLen(ValA(L))) IN
  { Script("flip-" \o ToString(L) \o "-" \o ToString(b), L, Flip(AuthenticA(L), b), "bitflip", b < 32) : b \in 0..(8 * n - 1) }
Truncs(L) == LET n == PktLen(MsgLen(ValA(L))) IN
  { Script("trunc-" \o ToString(L) \o "-" \o ToString(k), L, Trunc(AuthenticA(L), k), "truncate", FALSE) : k \in 0..(n - 1) }

\* ------------------------------------------------------------------- forgeries
\* packet with explicit parts: flags, sid, payload term (already with IV/ciphertext or plaintext), AuthCode term
Pkt(flags, sid, payload, authOf(_)) ==
  LET signed == IntegPadded(Cat(<< B(<<6, flags>>), sid, B(LE32s(1)), Len16(payload), payload >>))
  IN  Cat(<< Rmcp, signed, authOf(signed) >>)
EncPayload(msg, padbytes) == Cat(<< B(Iv(1)), Aes(Ref("K2"), B(Iv(1)), Cat(<< msg, B(padbytes) >>)) >>)
GoodAuth(signed) == Trunc(Hmac(S.integAlg, Ref("K1"), signed), S.integLen)
Forgeries(L) ==
  LET msg == Msg(ValA(L))
      n == MsgLen(ValA(L))
      good == EncPayload(msg, ConfPadBytes(n))
      p == ConfPadLen(n)
      sc(name, t) == Script("forge-" \o ToString(L) \o "-" \o name, L, t, name, FALSE)
      \* confidentiality pads that are wrong in exactly one position (when the pad is long enough), wrong length byte, oversized
      badpads == { <<"pad-pos" \o ToString(j), [ConfPadBytes(n) EXCEPT ![j] = (@ + 1) % 256]>> : j \in 1..p }
                 \* (a 16-byte pad 1..16,16 on an aligned message is tolerated by the library on purpose - OpenSSL-style BMCs)
                 \cup { <<"pad-len-17", Repeat(1, p) \o <<IF p = 0 THEN 32 ELSE 17>> >> }
                 \cup (IF p >= 1 THEN { <<"pad-all-zero", Repeat(0, p) \o <<p>> >>,
                                        <<"pad-len-plus16", [i \in 1..(p + 16) |-> i] \o <<p + 16>> >> } ELSE {})
  IN { sc("flag-cleared-plaintext", NullWrapper(0, msg)),
       sc("flag-cleared-signed-body", Cat(<< Rmcp, B(<<6, 128>>), Var("sidM"), B(LE32s(1)), Len16(good), good >>)),
       sc("authcode-empty", Pkt(192, Var("sidM"), good, LAMBDA s : B(<<>>))),
       sc("authcode-short-1", Pkt(192, Var("sidM"), good, LAMBDA s : Trunc(GoodAuth(s), 1))),
       sc("authcode-short-half", Pkt(192, Var("sidM"), good, LAMBDA s : Trunc(GoodAuth(s), S.integLen \div 2))),
       sc("authcode-short-minus1", Pkt(192, Var("sidM"), good, LAMBDA s : Trunc(GoodAuth(s), S.integLen - 1))),
       sc("authcode-random", Pkt(192, Var("sidM"), good, LAMBDA s : B([i \in 1..S.integLen |-> (i * 37 + Seed) % 256]))),
       sc("authcode-plus-extra", Pkt(192, Var("sidM"), good, LAMBDA s : Cat(<< GoodAuth(s), B(<<0>>) >>))),
       sc("wrong-key", Pkt(192, Var("sidM"), good, LAMBDA s : Trunc(Hmac(S.integAlg, B(Repeat(7, 20)), s), S.integLen))),
       sc("wrong-key-sik", Pkt(192, Var("sidM"), good, LAMBDA s : Trunc(Hmac(S.integAlg, Ref("SIK"), s), S.integLen))),
       sc("wrong-hash", Pkt(192, Var("sidM"), good, LAMBDA s : Trunc(Hmac(IF S.integAlg = "sha1" THEN "sha256" ELSE "sha1", Ref("K1"), s), S.integLen))),
       sc("wrong-session-id", Pkt(192, B(<<9, 9, 9, 9>>), good, GoodAuth)),
       sc("session-id-zero", Pkt(192, B(<<0, 0, 0, 0>>), good, GoodAuth)),
       \* IPMI v1.5 session wrappers (authentication type none: no AuthCode, no encryption) around the same message
       sc("v15-wrapper-console-sid", Cat(<< Rmcp, B(<<0>>), B(LE32s(1)), Var("sidM"), B(<<n>>), msg >>)),
       sc("v15-wrapper-bmc-sid", Cat(<< Rmcp, B(<<0>>), B(LE32s(1)), B(S.bmcSid), B(<<n>>), msg >>)),
       sc("v15-wrapper-null-sid", Cat(<< Rmcp, B(<<0, 0, 0, 0, 0, 0, 0, 0, 0>>), B(<<n>>), msg >>)) }
     \* (addressed to the BMC's own session ID: a forgery unless the two IDs happen to coincide, which cannot be known here)
     \cup (IF S.bmcSid = <<1, 0, 0, 0>> THEN {} ELSE { sc("bmc-session-id", Pkt(192, B(S.bmcSid), good, GoodAuth)) })
     \cup {
       sc("unsigned-plaintext-in-session-header", Cat(<< Rmcp, B(<<6, 0>>), Var("sidM"), B(LE32s(1)), Len16(msg), msg >>)) }
     \cup { sc(bp[1], Pkt(192, Var("sidM"), EncPayload(msg, bp[2]), GoodAuth)) : bp \in badpads }
     \cup (IF DigestLen(S.integAlg) > S.integLen
           THEN { sc("authcode-untruncated", Pkt(192, Var("sidM"), good, LAMBDA s : Hmac(S.integAlg, Ref("K1"), s))) } ELSE {})

\* ------------------------------------------------ a party that knows the session keys (C05)
\* correctly signed and encrypted packets around a malformed inner message: every truncation of the message, a
\* checksum-valid response too short to hold a completion code, wrong checksums, and malformed confidentiality payloads
KeyedPkt(payload) == Pkt(192, Var("sidM"), payload, GoodAuth)
Keyed(L) ==
  LET full == MsgRspBytes(129, NetFn + 1, 0, 1, 0, Cmd, 0, ValA(L))
      sc(name, t) == [Script("keyed-" \o ToString(L) \o "-" \o name, L, t, name, FALSE) EXCEPT !.steps[1].exp.prop = "C05"]
      enc(m) == EncPayload(B(m), ConfPadBytes(Len(m)))
      h1 == <<129, (NetFn + 1) * 4>>
      short7 == h1 \o <<Checksum(h1)>> \o <<32, 4, Cmd>> \o <<Checksum(<<32, 4, Cmd>>)>>
  IN { sc("msg-trunc-" \o ToString(n), KeyedPkt(enc(Take(full, n)))) : n \in 0..(Len(full) - 1) }
     \cup { sc("msg-7-bytes-valid-checksums", KeyedPkt(enc(short7))),
            sc("msg-checksum1-wrong", KeyedPkt(enc([full EXCEPT ![3] = (@ + 1) % 256]))),
            sc("msg-checksum2-wrong", KeyedPkt(enc([full EXCEPT ![Len(full)] = (@ + 1) % 256]))),
            sc("msg-request-netfn", KeyedPkt(enc(MsgReqBytes(129, NetFn, 0, 32, 1, 0, Cmd, ValA(L))))),
            \* one block whose pad claims 16 bytes: only 15 precede the length byte, the 16th would be the IV's last byte
            sc("pad-16-reaching-into-iv", KeyedPkt(Cat(<< B([Iv(1) EXCEPT ![16] = 1]), Aes(Ref("K2"), B([Iv(1) EXCEPT ![16] = 1]), B([i \in 1..15 |-> i + 1] \o <<16>>)) >>))),
            sc("pad-15-no-message", KeyedPkt(Cat(<< B(Iv(1)), Aes(Ref("K2"), B(Iv(1)), B([i \in 1..15 |-> i] \o <<15>>)) >>))),
            sc("payload-iv-only", KeyedPkt(B(Iv(1)))),
            sc("payload-empty", KeyedPkt(B(<<>>))),
            sc("payload-17-bytes", KeyedPkt(B(Iv(1) \o <<1>>))),
            sc("payload-31-bytes", KeyedPkt(Trunc(enc(full), 31))),
            \* authentic but unencrypted: a BMC may clear the encrypted bit per packet; not asserted either way (A allowed)
            [Script("keyed-" \o ToString(L) \o "-unencrypted-flag-authentic", L, Pkt(64, Var("sidM"), B(full), GoodAuth), "unencrypted-authentic", TRUE) EXCEPT !.steps[1].exp.prop = "C05"],
            sc("unencrypted-flag-short-msg", Pkt(64, Var("sidM"), B(short7), GoodAuth)),
            sc("payload-type-oem", Pkt(194, Var("sidM"), B(<<1, 2, 3, 4, 5, 6>>) , GoodAuth)),
            sc("payload-type-rakp2", Pkt(211, Var("sidM"), enc(full), GoodAuth)) }

\* a message of 15 mod 16 bytes: the specification's pad is empty, an OpenSSL-style BMC sends sixteen pad bytes 01..10h and
\* the length 10h (tolerated on purpose: value A allowed); the same with any one of the sixteen bytes wrong is invalid
Pad16Set ==
  LET L == 3   msg == Msg(ValA(L))
      pad(j) == [i \in 1..16 |-> IF i = j THEN (i + 1) % 256 ELSE i] \o <<16>>
  IN { Script("pad16-tolerated", L, Pkt(192, Var("sidM"), EncPayload(msg, [i \in 1..16 |-> i] \o <<16>>), GoodAuth), "pad16-tolerated", TRUE) }
     \cup { Script("pad16-pos" \o ToString(j), L, Pkt(192, Var("sidM"), EncPayload(msg, pad(j)), GoodAuth), "pad16-pos" \o ToString(j), FALSE) : j \in 1..16 }
\* the convenience methods of a session (the two that also exist outside a session): forged first, authentic second
GuidMsg(v) == MsgRspE(EchoS, 7, 0, 55, 0, [i \in 1..16 |-> (v + i) % 256])
MethodCall(kind) ==
  [k |-> "call", api |-> "Method", method |-> "GetSystemGUID", on |-> "", margs |-> <<>>, label |-> kind, target |-> "sess",
   exp |-> [prop |-> "C04", outcome |-> "oneofOrError", values |-> << [i \in 1..16 |-> (176 + i) % 256] >>]]
MethodSet ==
  LET a == GuidMsg(160)  b == GuidMsg(176)
      good == EncPayload(a, ConfPadBytes(TLen(a)))
      sc(name, t) == [id |-> "method-" \o name, prefix |-> "hs", info |-> [family |-> "forge", insess |-> TRUE, integLen |-> S.integLen, bmcSid |-> S.bmcSid, kind |-> name],
                      steps |-> << MethodCall(name), First(t, name),
                                   [React0 EXCEPT !.datagrams = << Dg(SessPacket(S, LE32s(2), b, Iv(2)), [kind |-> "authenticB"]) >>] @@ [cancel |-> TRUE] >>]
  IN { sc("flag-cleared-plaintext", NullWrapper(0, a)),
       sc("unsigned-plaintext-in-session-header", Cat(<< Rmcp, B(<<6, 0>>), Var("sidM"), B(LE32s(1)), Len16(a), a >>)),
       sc("authcode-random", Pkt(192, Var("sidM"), good, LAMBDA s : B([i \in 1..S.integLen |-> (i * 37 + Seed) % 256]))),
       sc("wrong-session-id", Pkt(192, B(<<9, 9, 9, 9>>), good, GoodAuth)) }
Lengths == IF Tier = "thorough" THEN {0, 1, 5, 8, 15, 16, 23} ELSE {(Seed * 3) % 16, 8 + ((Seed * 5) % 16)}
Scripts == UNION { Flips(L) \cup Truncs(L) \cup Forgeries(L) \cup Keyed(L) : L \in Lengths } \cup Pad16Set \cup MethodSet

Header == [header |-> TRUE, family |-> "forge", defs |-> SessionDefs(S), stable |-> <<"SIK", "K1", "K2">>,
           session |-> SessionRecipes(S), prefixes |-> [hs |-> HandshakeSteps(S)]]
ASSUME PrintT(<<"HEADER", ToJson(Header)>>)
ASSUME \A s \in Scripts : PrintT(<<"SCRIPT", ToJson(s)>>)
ASSUME PrintT(<<"COUNT", ToJson([n |-> Cardinality(Scripts)])>>)
=============================================================================
