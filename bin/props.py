"""Per-property checks. Each returns
   {level, coverage, assumptions, viols:[{prop,pred,ctx,where}], notes}."""
import json, os, itertools, time
import concurrent.futures as cf

import vlib
import families as F

SUITES = [(a, i) for a in (1, 2, 3) for i in (1, 2, 4)]      # authentication x integrity (AES-CBC-128)


def flatten(fam):
    """family result -> list of violation dicts with a replayable `where`."""
    out = []
    lines = None
    for v in fam["viols"]:
        for s in v["sigs"]:
            w = {"family": fam["name"], "trace": os.path.basename(v.get("trace", "")), "event": v["at"],
                 "script_index": v["script"], "params": fam.get("subst")}
            if lines is None and fam.get("scripts_file"):
                lines = True
            out.append({"prop": s["prop"], "pred": s["pred"], "ctx": s.get("ctx"), "where": w,
                        "scripts_file": fam.get("scripts_file")})
    return out


def attach_scripts(viols, limit=12):
    """Copy the offending script text into the first few violations so a replay file is self-contained."""
    done = 0
    for v in viols:
        sf = v.pop("scripts_file", None)
        if not sf or done >= limit:
            continue
        try:
            with open(sf) as f:
                hdr = f.readline()
                for i, line in enumerate(f):
                    if i == v["where"]["script_index"]:
                        if len(line) < 300000:
                            v["script"] = json.loads(line)
                        break
            done += 1
        except OSError:
            pass
    return viols


def sample_script(fam):
    try:
        with open(fam["scripts_file"]) as f:
            f.readline()
            s = json.loads(f.readline())
        return {"family": fam["name"], "abstract": s.get("abstract"), "steps": len(s.get("steps", [])),
                "first_steps": [{k: (st[k] if k in ("k", "api", "cmd", "label", "cancel", "fail") else "...")
                                 for k in st if k in ("k", "api", "cmd", "label", "cancel", "fail")} for st in s["steps"][:8]]}
    except Exception as e:  # noqa
        return {"family": fam["name"], "error": str(e)}


def more_seeds(specs, tier, extra=2):
    """Thorough tier: the same families again with further seeds (other pseudo-random contents and samples)."""
    if tier != "thorough":
        return list(specs)
    out = list(specs)
    for k in range(1, extra + 1):
        for fs in specs:
            if "seed" in fs:
                out.append(dict(fs, name="%s-s%d" % (fs["name"], k), seed=fs["seed"] + k))
    return out


def fam_cov(fams):
    return [{"family": f["name"], "scripts": f["scripts"], "events": f["events"], "consumed": f["consumed"],
             "times_s": f["times"], "params": f["subst"]} for f in fams]


def require_accepted(fams):
    bad = [f["name"] for f in fams if not f["accepted"]]
    if bad:
        raise vlib.Inconclusive("trace not fully consumed for %s" % bad)


def suite_for(seed, k=0):
    return SUITES[(seed + k) % len(SUITES)]


# ----------------------------------------------------------------- console properties
def confirmed_realtime(work, make, name):
    """Families that depend on wall-clock time (lost replies that really block): a violation only counts when it
    reproduces in three independent runs, so that a stalled goroutine on a loaded machine cannot raise an alarm."""
    runs = [make(name)]
    sigs = [{(x["prop"], x["pred"]) for x in flatten(runs[0])}]
    while sigs[-1] and len(runs) < 3:
        runs.append(make("%s-again%d" % (name, len(runs))))
        sigs.append({(x["prop"], x["pred"]) for x in flatten(runs[-1])})
    keep = set.intersection(*sigs) if len(runs) == 3 else set()
    last = runs[-1]
    last["viols"] = [v for v in last["viols"] if any((sg["prop"], sg["pred"]) in keep for sg in v["sigs"])] if keep else []
    for v in last["viols"]:
        v["sigs"] = [sg for sg in v["sigs"] if (sg["prop"], sg["pred"]) in keep]
    return last


CONSOLE_MUTANTS = {
    "C04": [("Mutant_Console_Flag.cfg", "C04_Authentic"), ("Mutant_Console_Sid.cfg", "C04_Authentic")],
    "C09": [("Mutant_Console_PreInc.cfg", "C09_SeqConsecutive"), ("Mutant_Console_SeqAfterBuild.cfg", "C09_SeqConsecutive")],
    "C10": [("Mutant_Console_Rebuild.cfg", "C10_SameCommand"), ("Mutant_Console_Temp.cfg", "C10_FinalCode"),
            ("Mutant_Console_Terminal.cfg", "C10_NoTxAfterTransportFailure")],
    "C11": [("Mutant_Console_Match.cfg", "C11_Match")],
}


def with_past_variants(fam_specs, tier, seed):
    """Every property holds whatever the connection did before: the first family of a check is replayed once more (thorough:
    under each of the four orderings) on a connection with a past (GenPast.tla, script option `past`); expectations unchanged."""
    fam_specs = list(fam_specs)
    if not fam_specs:
        return fam_specs
    first = fam_specs[0]
    variants = [seed % 4] if tier == "quick" else [0, 1, 2, 3]
    for v in variants:
        # (the scripts are the base family's own: generated once, cached under its name)
        fam_specs.append(dict(first, name="%s-past%d" % (first["name"], v), past=v, gen_name=first.get("gen_name", first["name"])))
    return fam_specs


def console_check(pid, tier, seed, work, mc_cfgs, fam_specs, level_note, hs_fams=()):
    t0 = time.time()
    mcs = []
    for module, cfg in mc_cfgs:
        mcs.append(F.model_check(module, cfg, work))
    killed = []
    for cfg, inv in (CONSOLE_MUTANTS.get(pid, []) if tier != "quick" else []):
        # each guard of the reference model switched off in turn: TLC must find the invariant it carries violated
        if not F.expect_violation("MCConsole", cfg, work, inv):
            raise vlib.Inconclusive("model mutant %s did not violate %s: the invariant is vacuous" % (cfg, inv))
        killed.append({"cfg": cfg, "violates": inv})
    def hs(fs):
        if (fs.get("opts") or {}).get("blockOnLost"):
            kw = {k: v for k, v in fs.items() if k != "name"}
            return confirmed_realtime(work, lambda nm: F.handshake_family(work, name=nm, **kw), fs["name"])
        return F.handshake_family(work, **fs)
    fam_specs = with_past_variants(fam_specs, tier, seed)
    # (the thorough families are large: one replay at a time keeps the harness processes within memory)
    with cf.ThreadPoolExecutor(max_workers=3 if tier == "quick" else 1) as ex:
        fams = list(ex.map(lambda fs: F.console_family(work, **fs), fam_specs))
        fams += list(ex.map(hs, hs_fams))
    require_accepted(fams)
    viols = []
    for f in fams:
        viols += flatten(f)
    attach_scripts(viols)
    cov = {
        "states": sum(m["distinct"] for m in mcs), "transitions": sum(m["generated"] for m in mcs),
        "model_checking": mcs, "model_mutants_killed": killed,
        "traces_validated_against_impl": sum(f["scripts"] for f in fams),
        "events_validated": sum(f["events"] for f in fams),
        "evaluations": sum(f["scripts"] for f in fams),
        "distinct_nontrivial": sum(f["scripts"] for f in fams),
        "rule": "TLC enumerates breadth-first every terminal behaviour of Console.tla (calls x attempts x environment "
                "outcome alphabet) to the stated bounds; each behaviour is a distinct script replayed on the real "
                "library; each recorded trace is validated by TLC (TraceConsole.tla). Distinct = distinct outcome "
                "sequences (TLC states are deduplicated); every script contains at least one fault or one completed command.",
        "families": fam_cov(fams),
        "samples": [sample_script(f) for f in fams[:3]],
        "exhaustive": True,
    }
    return {"level": "model_checking", "coverage": cov, "viols": viols, "assumptions": level_note}


COMMON_ASSUME = [
    "TLC 1.8 and the TLA+ modules under /verif/spec are the oracle; Go stdlib hmac/sha1/sha256/md5/aes evaluate the crypto terms",
    "the in-memory transport injected through the verif-tagged constructor reproduces transport.Send: one write, one read, "
    "replies copied into a reused 512-byte buffer; the back-off is replaced by a zero constant back-off",
    "bounds of the exhaustive enumeration are those listed under families/model_checking",
]


def c09(tier, seed, work):
    a, i = suite_for(seed)
    a2, i2 = suite_for(seed, 4)
    if tier == "quick":
        fams = [dict(name="c09-sess", insess=True, cmds="CmdsAB", maxcalls=2, maxatt=2, kinds="KindsRetry", auth=a, integ=i),
                # X: a request the library refuses to serialise (no transmission, no sequence number used up)
                dict(name="c09-refused", insess=True, cmds="CmdsAX", maxcalls=3, maxatt=2, kinds="KindsRetry", auth=a, integ=i, codes="CodesOkBusy"),
                dict(name="c09-nosess", insess=False, cmds="CmdsAB", maxcalls=2, maxatt=2, kinds="KindsRetryNS", auth=1, integ=1),
                # authentic replies that answer another request (stale, duplicated, late): every retransmission still takes the next number
                dict(name="c09-desync", insess=True, cmds="CmdsAB", maxcalls=2, maxatt=2, kinds="KindsDesync", auth=a2, integ=i2, codes="CodesOkBusy")]
        mc = [("MCConsole", "MC_Console_sess_quick.cfg"), ("MCConsole", "MC_Console_nosess_quick.cfg")]
    else:
        fams = [dict(name="c09-sess", insess=True, cmds="CmdsAB", maxcalls=2, maxatt=3, kinds="KindsRetry", auth=a, integ=i),
                dict(name="c09-desync", insess=True, cmds="CmdsAB", maxcalls=2, maxatt=3, kinds="KindsDesync", auth=a2, integ=i2, codes="CodesOkBusy"),
                dict(name="c09-sess2", insess=True, cmds="CmdsAR", maxcalls=3, maxatt=2, kinds="KindsRetry", auth=a2, integ=i2),
                dict(name="c09-refused", insess=True, cmds="CmdsABX", maxcalls=3, maxatt=2, kinds="KindsRetry", auth=a, integ=i),
                dict(name="c09-nosess", insess=False, cmds="CmdsAB", maxcalls=2, maxatt=3, kinds="KindsRetryNS", auth=1, integ=1)]
        mc = [("MCConsole", "MC_Console_sess.cfg"), ("MCConsole", "MC_Console_nosess.cfg")]
    res = console_check("C09", tier, seed, work, mc, fams, COMMON_ASSUME,
                        hs_fams=[dict(name="c09-hs-retry", family="retry", tier=tier, seed=seed),
                                 # several sessions one after another on one connection, closes that fail and are tried again
                                 dict(name="c09-lifecyclex", family="lifecyclex", tier=tier, seed=seed)])
    return add_walk(res, work, [dict(name="c09-api", module="MCGenApi", cfg_tpl="Gen_Cipher.cfg.tpl", family="api", tier=tier, seed=seed),
                                # a command retransmitted 255 .. 300 times, then another command
                                dict(name="c09-longbusy", module="MCGenSensor", cfg_tpl="Gen_Cipher.cfg.tpl", family="lun", tier=tier, seed=seed)],
                    "Every library command and convenience method in a session, including requests the library refuses to encode "
                    "(nothing transmitted): the sequence numbers of the datagrams the BMC receives continue without a gap.")


def c10(tier, seed, work):
    a, i = suite_for(seed, 1)
    if tier == "quick":
        fams = [dict(name="c10-sess", insess=True, cmds="CmdsAB", maxcalls=2, maxatt=2, kinds="KindsRetry", auth=a, integ=i),
                dict(name="c10-nosess", insess=False, cmds="CmdsAB", maxcalls=2, maxatt=2, kinds="KindsRetryNS", auth=1, integ=1, codes="CodesAll")]
        mc = [("MCConsole", "MC_Console_sess_quick.cfg"), ("MCConsole", "MC_Console_nosess_quick.cfg")]
    else:
        fams = [dict(name="c10-sess", insess=True, cmds="CmdsAB", maxcalls=2, maxatt=3, kinds="KindsRetry", auth=a, integ=i),
                dict(name="c10-sessR", insess=True, cmds="CmdsAR", maxcalls=1, maxatt=4, kinds="KindsRetry", auth=a, integ=i),
                dict(name="c10-nosess", insess=False, cmds="CmdsAB", maxcalls=2, maxatt=3, kinds="KindsRetryNS", auth=1, integ=1),
                dict(name="c10-nosessR", insess=False, cmds="CmdsAR", maxcalls=1, maxatt=4, kinds="KindsSessionless", auth=1, integ=1)]
        mc = [("MCConsole", "MC_Console_sess.cfg"), ("MCConsole", "MC_Console_nosess.cfg")]
    res = console_check("C10", tier, seed, work, mc, fams, COMMON_ASSUME,
                        hs_fams=[dict(name="c10-hs-retry", family="retry", tier=tier, seed=seed),
                                 dict(name="c10-hs-retry-rt", family="retry", tier=tier, seed=seed + 1, opts={"blockOnLost": True, "timeoutMs": 120})])
    # real time, the library's own transport and back-off: temporary codes answered promptly, then the final answer
    rt = confirmed_realtime(work, lambda nm: F.walk_family(work, nm, "MCGenTiming", "Gen_Cipher.cfg.tpl", "retrytime", tier, seed, workers=8), "c10-retrytime")
    require_accepted([rt])
    ex = flatten(rt)
    attach_scripts(ex)
    res["viols"] += ex
    res["coverage"]["families"] += fam_cov([rt])
    res["coverage"]["evaluations"] += rt["scripts"]
    res["coverage"]["distinct_nontrivial"] += rt["scripts"]
    res["coverage"]["rule"] += (" Over UDP loopback with the library's own back-off: node busy once or twice, each answered promptly, then the "
                                "final answer, in and out of a session, per-attempt timeouts 150 and 300 ms (shorter than the back-off pauses): "
                                "the command must return that answer (three-fold reproduction for a violation).")
    res = add_udpwire(res, work, "c10-udpwire", tier, seed)
    res = add_hs(res, work, [dict(name="c10-long", family="long", tier=tier, seed=seed)],
                 "80 (thorough: 400) commands in a row on one session per suite: a valid final response ends each of them.")
    return add_walk(res, work, [dict(name="c10-lun", module="MCGenSensor", cfg_tpl="Gen_Cipher.cfg.tpl", family="lun", tier=tier, seed=seed),
                                # every command, alone, twice in a row, and on the connection / in the session alternately
                                dict(name="c10-api", module="MCGenApi", cfg_tpl="Gen_Cipher.cfg.tpl", family="api", tier=tier, seed=seed)],
                    "Commands addressed to responder LUN 0..3 (Get Sensor Reading through a sensor reader), answered from that LUN with "
                    "temporary codes and then the reading.")


def c11(tier, seed, work):
    a, i = suite_for(seed, 2)
    pairs = ["CmdsAB", "CmdsAR", "CmdsGH"]
    if tier == "quick":
        fams = [dict(name="c11-sess", insess=True, cmds=pairs[seed % 3], maxcalls=2, maxatt=2, kinds="KindsDesync", auth=a, integ=i, codes="CodesOkBusy"),
                dict(name="c11-nosess", insess=False, cmds=pairs[(seed + 1) % 3], maxcalls=2, maxatt=2, kinds="KindsDesync", auth=1, integ=1, codes="CodesOkBusy"),
                dict(name="c11-third", insess=(seed % 2 == 0), cmds=pairs[(seed + 2) % 3], maxcalls=2, maxatt=2, kinds="KindsDesync", auth=a, integ=i, codes="CodesOkBusy"),
                # a command whose response has no body: only the message header ties the reply to the request
                dict(name="c11-nobody", insess=True, cmds="CmdsAC", maxcalls=2, maxatt=2, kinds="KindsDesync", auth=a, integ=i, codes="CodesOkBusy"),
                dict(name="c11-nobody-n", insess=False, cmds="CmdsCR", maxcalls=2, maxatt=2, kinds="KindsDesync", auth=1, integ=1, codes="CodesOkBusy"),
                # the same command number under two network functions
                dict(name="c11-samenum", insess=(seed % 2 == 1), cmds="CmdsRQ", maxcalls=2, maxatt=2, kinds="KindsDesync", auth=a, integ=i, codes="CodesOkBusy")]
        mc = [("MCConsole", "MC_Console_sess_quick.cfg"), ("MCConsole", "MC_Console_nosess_quick.cfg")]
    else:
        fams = [dict(name="c11-sess", insess=True, cmds="CmdsABR", maxcalls=2, maxatt=2, kinds="KindsDesync", auth=a, integ=i),
                dict(name="c11-nosess", insess=False, cmds="CmdsABR", maxcalls=2, maxatt=2, kinds="KindsDesync", auth=1, integ=1),
                dict(name="c11-sess3", insess=True, cmds="CmdsAB", maxcalls=2, maxatt=3, kinds="KindsDesync", auth=a, integ=i, codes="CodesOkBusy"),
                dict(name="c11-nosess3", insess=False, cmds="CmdsAR", maxcalls=3, maxatt=2, kinds="KindsDesync", auth=a, integ=i, codes="CodesOkBusy"),
                dict(name="c11-group-s", insess=True, cmds="CmdsAGH", maxcalls=2, maxatt=2, kinds="KindsDesync", auth=a, integ=i),
                dict(name="c11-group-n", insess=False, cmds="CmdsAGH", maxcalls=2, maxatt=2, kinds="KindsDesync", auth=1, integ=1),
                dict(name="c11-nobody", insess=True, cmds="CmdsAC", maxcalls=2, maxatt=3, kinds="KindsDesync", auth=a, integ=i),
                dict(name="c11-nobody-n", insess=False, cmds="CmdsCR", maxcalls=2, maxatt=3, kinds="KindsDesync", auth=1, integ=1),
                dict(name="c11-samenum-s", insess=True, cmds="CmdsRQ", maxcalls=2, maxatt=3, kinds="KindsDesync", auth=a, integ=i),
                dict(name="c11-samenum-n", insess=False, cmds="CmdsRQ", maxcalls=2, maxatt=3, kinds="KindsDesync", auth=1, integ=1)]
        mc = [("MCConsole", "MC_Console_sess.cfg"), ("MCConsole", "MC_Console_nosess.cfg")]
    return add_udpwire(console_check("C11", tier, seed, work, mc, fams, COMMON_ASSUME), work, "c11-udpwire", tier, seed)


def c04(tier, seed, work):
    a, i = suite_for(seed, 3)
    if tier == "quick":
        a2, i2 = suite_for(seed, 6)
        fams = [dict(name="c04-forge", insess=True, cmds="CmdsAB", maxcalls=2, maxatt=2, kinds="KindsForge", auth=a, integ=i, codes="CodesOkErr"),
                # group-extension (DCMI) commands and a command without a response body take other paths through the checks
                dict(name="c04-forge-group", insess=True, cmds="CmdsGH", maxcalls=1, maxatt=3, kinds="KindsForge", auth=a2, integ=i2, codes="CodesOkErr"),
                dict(name="c04-forge-nobody", insess=True, cmds="CmdsAC", maxcalls=1, maxatt=3, kinds="KindsForge", auth=a, integ=i, codes="CodesOkErr"),
                # an authentic "node busy" first, then forgeries until the context expires: still no result from a forgery
                dict(name="c04-forge-busy", insess=True, cmds="CmdsAC", maxcalls=1, maxatt=3, kinds="KindsForge", auth=a2, integ=i2, codes="CodesOkBusy")]
        mc = [("MCConsole", "MC_Console_sess_quick.cfg")]
    else:
        fams = [dict(name="c04-forge-%d-%d" % s, insess=True, cmds="CmdsAB", maxcalls=2, maxatt=2, kinds="KindsForge", auth=s[0], integ=s[1])
                for s in SUITES]
        fams.append(dict(name="c04-forge3", insess=True, cmds="CmdsAR", maxcalls=1, maxatt=4, kinds="KindsForge", auth=a, integ=i))
        fams.append(dict(name="c04-forge-group", insess=True, cmds="CmdsAGH", maxcalls=2, maxatt=2, kinds="KindsForge", auth=a, integ=i))
        fams.append(dict(name="c04-forge-nobody", insess=True, cmds="CmdsAC", maxcalls=2, maxatt=2, kinds="KindsForge", auth=a, integ=i))
        fams.append(dict(name="c04-forge-busy", insess=True, cmds="CmdsAC", maxcalls=1, maxatt=4, kinds="KindsForge", auth=a, integ=i, codes="CodesOkBusy"))
        mc = [("MCConsole", "MC_Console_sess.cfg")]
    res = console_check("C04", tier, seed, work, mc, fams, COMMON_ASSUME)
    # tampering and forgery catalogue (GenForge.tla), validated with the generic walk trace spec
    suites = SUITES if tier != "quick" else [suite_for(seed, 3), suite_for(seed, 7)]
    forge = [F.walk_family(work, "c04-tamper-%d-%d" % s, "MCGenForge", "Gen_Forge.cfg.tpl", "forge", tier, seed,
                           extra_subst=dict(AUTH=s[0], INTEG=s[1])) for s in suites]
    require_accepted(forge)
    extra = []
    for f in forge:
        extra += flatten(f)
    attach_scripts(extra)
    res["viols"] += extra
    cov = res["coverage"]
    n = sum(f["scripts"] for f in forge)
    cov["traces_validated_against_impl"] += n
    cov["evaluations"] += n
    cov["distinct_nontrivial"] += n
    cov["events_validated"] += sum(f["events"] for f in forge)
    cov["families"] += fam_cov(forge)
    cov["rule"] += (" Tampering: every single-bit flip and every truncation of an authentic encrypted reply, and a forgery "
                    "catalogue (flag cleared, empty/short/random/untruncated AuthCode, wrong key, wrong hash, wrong/zero/BMC session "
                    "ID, unsigned plaintext, a confidentiality pad wrong in each single position / length), each followed by an "
                    "authentic reply with a different value; one script per bit / length / forgery.")
    return res


CHECKS = {"C09": c09, "C10": c10, "C11": c11, "C04": c04}


# ----------------------------------------------------------------- handshake properties
def hs_check(pid, tier, seed, work, fam_specs, mc=True, mutants=()):
    mcs = []
    if mc:
        mcs.append(F.model_check("Handshake", "MC_Handshake.cfg", work, workers=8))
    killed = []
    for cfg, inv in mutants:
        ok = F.expect_violation("Handshake", cfg, work, inv)
        if not ok:
            raise vlib.Inconclusive("model mutant %s did not violate %s: the invariant is vacuous" % (cfg, inv))
        killed.append({"cfg": cfg, "violates": inv})
    fam_specs = with_past_variants(more_seeds(fam_specs, tier), tier, seed)
    with cf.ThreadPoolExecutor(max_workers=3) as ex:
        fams = list(ex.map(lambda fs: F.handshake_family(work, **fs), fam_specs))
    require_accepted(fams)
    viols = []
    for f in fams:
        viols += flatten(f)
    attach_scripts(viols)
    n = sum(f["scripts"] for f in fams)
    cov = {
        "states": sum(m["distinct"] for m in mcs), "transitions": sum(m["generated"] for m in mcs),
        "model_checking": mcs, "model_mutants_killed": killed,
        "traces_validated_against_impl": n, "events_validated": sum(f["events"] for f in fams),
        "evaluations": n, "distinct_nontrivial": n,
        "rule": "Handshake.tla is checked exhaustively (21 mutation classes x KG x 24 proposals). GenHandshake.tla enumerates "
                "scenarios (suite, credentials lengths, privilege, lookup, KG; one mutation of an honest transcript: every "
                "bit of the authenticated fields, every status code, every other tag, every truncation length, every "
                "algorithm triple) as scripts whose BMC side is the RAKP term algebra of Crypto.tla; each script is a "
                "distinct scenario id; each recorded execution is validated by TLC (TraceHandshake.tla).",
        "families": fam_cov(fams), "samples": [sample_script(f) for f in fams[:3]],
    }
    return {"level": "model_checking", "coverage": cov, "viols": viols, "assumptions": COMMON_ASSUME}


def c01(tier, seed, work):
    fams = [dict(name="c01-honest", family="honest", tier=tier, seed=seed),
            dict(name="c01-retry", family="retry", tier=tier, seed=seed),
            dict(name="c01-rekey", family="rekey", tier=tier, seed=seed),
            # 80 (thorough: 400) commands on one session per suite
            dict(name="c01-long", family="long", tier=tier, seed=seed)]
    if tier != "quick":
        fams.append(dict(name="c01-honest-exact", family="honest", tier="quick", seed=seed + 1, opts={"exact": True}))
        fams.append(dict(name="c01-honest-s2", family="honest", tier="quick", seed=seed + 2))
    res = hs_check("C01", tier, seed, work, fams,
                   mutants=[("Mutant_Handshake_CheckRakp4.cfg", "C01_KeyAgreement")] if tier != "quick" else ())
    # "every command subsequently sent passes the BMC's integrity check and decryption": also the retransmissions that follow
    # damaged, unauthentic or undecodable replies
    a, i = suite_for(seed, 1)
    a2, i2 = suite_for(seed, 5)
    d = 2 if tier == "quick" else 3
    return add_console(res, work, [dict(name="c01-retry-s", insess=True, cmds="CmdsAR", maxcalls=2, maxatt=d, kinds="KindsRetry", auth=a, integ=i),
                                   # (the forge alphabet has seven kinds: three attempts x two calls is beyond what TLC enumerates in time)
                                   dict(name="c01-forge-s", insess=True, cmds="CmdsAB", maxcalls=2, maxatt=2, kinds="KindsForge", auth=a2, integ=i2,
                                        codes="Codes3" if tier == "quick" else "CodesOkErr")],
                       "In-session commands under every outcome sequence of Console.tla (busy, garbage, bad signature, wrong pad, forged): "
                       "every datagram the BMC receives, first or repeated, must verify under the BMC-side K1 and decrypt under K2.")


def c02(tier, seed, work):
    fams = [dict(name="c02-mutate", family="mutate", tier=tier, seed=seed),
            dict(name="c02-mutate-exact", family="mutate", tier=tier, seed=seed, opts={"exact": True}),
            dict(name="c02-rekey", family="rekey", tier=tier, seed=seed)]
    muts = [("Mutant_Handshake_CheckRakp2.cfg", "C02_IncorrectPassword"), ("Mutant_Handshake_CheckStatus.cfg", "C02_OnlyIfAuthentic"),
            ("Mutant_Handshake_CheckTag.cfg", "C02_OnlyIfAuthentic"), ("Mutant_Handshake_KeysPerCall.cfg", "C02_OnlyIfAuthentic")]
    return hs_check("C02", tier, seed, work, fams, mutants=muts if tier != "quick" else ())


CHECKS.update({"C01": c01, "C02": c02})


# ----------------------------------------------------------------- walks (expectation carried by the script)
def walk_check(pid, tier, seed, work, mcs_spec, mutants, fam_specs, rule):
    mcs = [F.model_check(m, c, work, workers=8) for m, c in mcs_spec]
    killed = []
    for module, cfg, inv in mutants:
        if not F.expect_violation(module, cfg, work, inv):
            raise vlib.Inconclusive("model mutant %s did not violate %s" % (cfg, inv))
        killed.append({"cfg": cfg, "violates": inv})
    fams = []
    for fs in with_past_variants(more_seeds(fam_specs, tier, extra=1), tier, seed):
        fs = dict(fs)
        kind = fs.pop("kind", "walk")
        fams.append(F.handshake_family(work, **fs) if kind == "handshake" else F.walk_family(work, **fs))
    require_accepted(fams)
    viols = []
    for f in fams:
        viols += flatten(f)
    attach_scripts(viols)
    n = sum(f["scripts"] for f in fams)
    cov = {"states": sum(m["distinct"] for m in mcs), "transitions": sum(m["generated"] for m in mcs),
           "model_checking": mcs, "model_mutants_killed": killed,
           "traces_validated_against_impl": n, "events_validated": sum(f["events"] for f in fams),
           "evaluations": n, "distinct_nontrivial": n, "rule": rule,
           "families": fam_cov(fams), "samples": [sample_script(f) for f in fams[:3]]}
    return {"level": "model_checking", "coverage": cov, "viols": viols, "assumptions": COMMON_ASSUME}


def c12(tier, seed, work):
    fams = [dict(name="c12-selection", module="MCGenCipher", cfg_tpl="Gen_Cipher.cfg.tpl", family="selection", tier=tier, seed=seed),
            dict(kind="handshake", name="c12-triples", family="triples", tier=tier, seed=seed),
            dict(kind="handshake", name="c12-none", family="honest", tier="quick", seed=seed)]
    muts = [("Handshake", "Mutant_Handshake_CompareAlgs.cfg", "C02_OnlyIfAuthentic"), ("Handshake", "Mutant_Handshake_RefuseNone.cfg", "C12_NeverPanics")]
    return walk_check("C12", tier, seed, work, [("MCCipherSelect", "MC_CipherSelect.cfg"), ("Handshake", "MC_Handshake.cfg")],
                      muts if tier != "quick" else [], fams,
                      "Selection is a pure function checked by TLC over every preference list of length 0..3 over 5 suites x every "
                      "advertised subset (ASSUME in MCCipherSelect); the same cases are replayed (rule-driven BMC serving the advertised "
                      "records by list index) and the Open Session Request on the wire is parsed by TLC; every algorithm triple from "
                      "{None, defined, OEM, unknown}^3 is placed in the Open Session Response of otherwise honest handshakes. One script "
                      "per (preference list, advertised set) / (proposal, triple).")


def c16(tier, seed, work):
    fams = [dict(name="c16-discovery", module="MCGenCipher", cfg_tpl="Gen_Cipher.cfg.tpl", family="discovery", tier=tier, seed=seed),
            dict(name="c16-dcmi", module="MCGenDcmi", cfg_tpl="Gen_Cipher.cfg.tpl", family="paging", tier=tier, seed=seed)]
    muts = [("MCCipherSelect", "Mutant_CipherSelect_ShortStop.cfg", "C16_StopsAtShortChunkInclExactMultiple"),
            ("MCCipherSelect", "Mutant_CipherSelect_Concat.cfg", "C16_MalformedGivesErrorNotPartial"),
            ("MCCipherSelect", "Mutant_CipherSelect_Bound.cfg", "C16_AllRecordsExpandedInOrder"),
            ("MCCipherSelect", "Mutant_CipherSelect_Refusal.cfg", "C16_MalformedGivesErrorNotPartial"),
            ("MCCipherSelect", "Mutant_CipherSelect_FreshBuffer.cfg", "C16_AllRecordsExpandedInOrder"),
            ("MCCipherSelect", "Mutant_CipherSelect_FreshIndex.cfg", "C16_MalformedGivesErrorNotPartial"),
            ("DcmiPaging", "Mutant_DcmiPaging_Advance.cfg", "C16_AllRecordIDsInOrderNoDup"),
            ("DcmiPaging", "Mutant_DcmiPaging_Fallback.cfg", "C16_AllRecordIDsInOrderNoDup"),
            ("DcmiPaging", "Mutant_DcmiPaging_StopOnCount.cfg", "C16_AllRecordIDsInOrderNoDup")]
    return walk_check("C16", tier, seed, work, [("MCCipherSelect", "MC_CipherSelect.cfg"), ("MCCipherSelect", "MC_CipherSelect_Bound.cfg"),
                                                ("DcmiPaging", "MC_DcmiPaging.cfg")],
                      muts if tier != "quick" else [], fams,
                      "DcmiPaging.tla (per-entity instance lists, page size, IPMI/DCMI entity families, error for IPMI IDs) checked "
                      "exhaustively for counts 0..4 x page sizes 1..3 x both families; generated instance counts up to 255 x page sizes "
                      "1..8 x three entities x both families incl. fallback on empty and on error, served by a rule-driven in-session BMC. "
                      "CipherSelect.tla (chunked retrieval + record grammar) checked exhaustively for lists of <= 3 records from a "
                      "5-record universe x 6 malformed tails; generated lists of 0..20 standard/OEM records with 0..3 algorithms per "
                      "class, including encodings that are exact multiples of 16 bytes, and malformed tails, served by a rule-driven "
                      "BMC; result and request sequence compared by TLC with the specification's.")


def c14(tier, seed, work):
    fams = [dict(name="c14-plain", module="MCGenSdr", cfg_tpl="Gen_Cipher.cfg.tpl", family="plain", tier=tier, seed=seed),
            dict(name="c14-events", module="MCGenSdr", cfg_tpl="Gen_Cipher.cfg.tpl", family="events", tier=tier, seed=seed),
            dict(name="c14-faults", module="MCGenSdr", cfg_tpl="Gen_Cipher.cfg.tpl", family="faults", tier=tier, seed=seed)]
    muts = [("MCSdrWalk", "Mutant_SdrWalk_Compare.cfg", "ResultIsSnapshot"), ("MCSdrWalk", "Mutant_SdrWalk_KeyByOwnID.cfg", "ResultIsSnapshot"),
            ("MCSdrWalk", "Mutant_SdrWalk_FreshMap.cfg", "ResultIsSnapshot"), ("MCSdrWalk", "Mutant_SdrWalk_CompareEach.cfg", "ResultIsSnapshot")]
    return walk_check("C14", tier, seed, work, [("MCSdrWalk", "MC_SdrWalk_quick.cfg" if tier == "quick" else "MC_SdrWalk.cfg")],
                      muts if tier != "quick" else [], fams,
                      "SdrWalk.tla (repository device with reservation and addition/erase time stamps; console walk with comparison and "
                      "retry) checked exhaustively: ResultIsSnapshot, KeysAreOwnIDs, EachOnce for <= 3 records over IDs {0,1,5} and <= 2 "
                      "environment events. Generated repositories (1..40 records, sparse unordered IDs, first ID zero or not, "
                      "full/compact/FRU-locator/OEM records, all ID-string encodings and lengths incl. empty) are served in session by a "
                      "rule-driven BMC; a modification (either time stamp) or a reservation loss is injected before each possible Get SDR "
                      "request, with strict and lenient stale-reservation behaviour; TLC compares the returned map with the snapshot.")


def c15(tier, seed, work):
    fams = [dict(name="c15-sweep", module="MCGenSensor", cfg_tpl="Gen_Cipher.cfg.tpl", family="sweep", tier=tier, seed=seed),
            dict(name="c15-misc", module="MCGenSensor", cfg_tpl="Gen_Cipher.cfg.tpl", family="misc", tier=tier, seed=seed)]
    res = walk_check("C15", tier, seed, work, [], [], fams,
                     "Sensor.tla fixes the decision table (which reader, which refusal, which error and its precedence) and the formula "
                     "as an exact decimal term; all 256 raw bytes x 3 analog formats x 12 linear/linearised functions (36 sweeps of 256 "
                     "reads), all 128 linearisation codes x 4 formats for refusal, all 8 flag combinations, M and B boundary-complete over "
                     "10 bits and all 16 x 16 exponent pairs; the library's value is compared (relative 1e-9) with an independent "
                     "evaluation (math/big rationals, math.Cbrt, products) of the term TLC attached to the reading.")
    res["level"] = "exploration"
    n = sum(f["scripts"] for f in res["coverage"]["families"])
    res["coverage"]["evaluations"] = sum(f["events"] for f in res["coverage"]["families"]) // 5
    res["coverage"]["distinct_nontrivial"] = n
    return res


CHECKS.update({"C12": c12, "C14": c14, "C15": c15, "C16": c16})


def c03(tier, seed, work):
    a, i = suite_for(seed, 5)
    hs = [dict(name="c03-honest", family="honest", tier=tier, seed=seed),
          dict(name="c03-long", family="long", tier=tier, seed=seed)]
    if tier == "quick":
        fams = [dict(name="c03-retry", insess=True, cmds="CmdsAR", maxcalls=2, maxatt=2, kinds="KindsRetry", auth=a, integ=i)]
        mc = [("MCConsole", "MC_Console_sess_quick.cfg")]
    else:
        fams = [dict(name="c03-retry-%d-%d" % s, insess=True, cmds="CmdsAR", maxcalls=2, maxatt=2, kinds="KindsRetry", auth=s[0], integ=s[1]) for s in SUITES]
        fams.append(dict(name="c03-group", insess=True, cmds="CmdsAGH", maxcalls=2, maxatt=2, kinds="KindsRetry", auth=a, integ=i))
        mc = [("MCConsole", "MC_Console_sess.cfg")]
    res = console_check("C03", tier, seed, work, mc, fams, COMMON_ASSUME, hs_fams=hs)
    res = add_walk(res, work, [dict(name="c03-api", module="MCGenApi", cfg_tpl="Gen_Cipher.cfg.tpl", family="api", tier=tier, seed=seed),
                               dict(name="c03-tamper", module="MCGenForge", cfg_tpl="Gen_Forge.cfg.tpl", family="forge", tier=tier, seed=seed,
                                    extra_subst=dict(AUTH=a, INTEG=i))],
                   "Every library command with its request fields inside a session (GenApi). The retransmissions that follow every "
                   "tampered, truncated (AuthCode too short, too long, missing) or forged reply of GenForge.")
    res["level"] = "exploration"
    res = add_udpwire(res, work, "c03-udpwire", tier, seed)
    wire_note = res["coverage"]["rule"][res["coverage"]["rule"].rfind(" Over UDP loopback"):]
    res["coverage"]["rule"] = ("Every in-session datagram recorded from the real library is parsed by TLC (wrapper, integrity pad, "
                               "AuthCode verdict under the BMC-side K1, IV, ciphertext length, confidentiality pad, message checksums, "
                               "inner command) in three families: honest sessions for all 9 suites with raw commands of body length "
                               "0..40 (every residue mod 4 and mod 16), long histories for IV freshness, and exhaustive retry outcome "
                               "sequences (retransmissions after busy / bad signature / garbage). Distinct = distinct scripts." + wire_note)
    return res


CHECKS.update({"C03": c03})


def c18(tier, seed, work):
    a, i = suite_for(seed, 6)
    mcs = [F.model_check("MCConsole", "MC_Console_sess_quick.cfg" if tier == "quick" else "MC_Console_sess.cfg", work),
           F.model_check("MCConsole", "MC_Console_nosess_quick.cfg" if tier == "quick" else "MC_Console_nosess.cfg", work)]
    depth = 2 if tier == "quick" else 3
    fams = [F.console_metrics_family(work, "c18-sess", True, "CmdsAR", 2, depth, "KindsRetry", a, i),
            F.console_metrics_family(work, "c18-nosess", False, "CmdsAB", 2, depth, "KindsRetryNS", 1, 1, codes="CodesAll"),
            # datagrams the session rejects (unsigned, another session's ID, bad signature or pad, stale): not valid responses
            F.console_metrics_family(work, "c18-forge", True, "CmdsAB", 2, 2, "KindsForge", a, i, codes="CodesOkErr")]
    mcs.append(F.model_check("Lifecycle", "MC_Lifecycle.cfg", work, workers=4))
    for g, inv in (("DecAlways", "C18_Gauge"), ("CountFailure", "C18_Opens"), ("AttemptFirst", "C18_Opens")):
        if not F.expect_violation("Lifecycle", "Mutant_Lifecycle_%s.cfg" % g, work, inv):
            raise vlib.Inconclusive("model mutant Mutant_Lifecycle_%s.cfg did not violate %s" % (g, inv))
    hs = [F.handshake_family(work, "c18-lifecycle", "lifecycle", tier, seed, metrics=True),
          # every behaviour of Lifecycle.tla of 4 (thorough: 6) operations
          F.handshake_family(work, "c18-lifecyclex", "lifecyclex", tier, seed, metrics=True)]
    fams += hs
    # every library command (incl. the five DCMI capability commands that share one operation) and real-time retries
    fams.append(F.walk_family(work, "c18-api", "MCGenApi", "Gen_Cipher.cfg.tpl", "api", tier, seed, metrics=True))
    fams.append(F.walk_family(work, "c18-realtime", "MCGenTiming", "Gen_Cipher.cfg.tpl", "metrics", tier, seed, metrics=True))
    # session opens that begin with the cipher suite enumeration (several preferences, or none given), successful or not
    fams.append(F.walk_family(work, "c18-selection", "MCGenCipher", "Gen_Cipher.cfg.tpl", "selection", tier, seed, metrics=True))
    require_accepted(fams)
    viols = []
    for f in fams:
        viols += flatten(f)
    attach_scripts(viols)
    n = sum(f["scripts"] for f in fams)
    cov = {"states": sum(m["distinct"] for m in mcs), "transitions": sum(m["generated"] for m in mcs), "model_checking": mcs,
           "traces_validated_against_impl": n, "events_validated": sum(f["events"] for f in fams),
           "evaluations": n, "distinct_nontrivial": n,
           "rule": "Console.tla carries the exported counters and an independent ghost count (invariant C18_Metrics, exhaustive). "
                   "On the real library the Prometheus registry is gathered after every call (one connection at a time per "
                   "process); MetricsLaw.tla maps what TLC observed in the call (name, transmissions, valid responses by "
                   "completion code, error) to the exact expected change of every bmc_* counter and gauge, and TLC compares "
                   "all keys. Families: exhaustive command outcome sequences in and out of a session, and session/connection "
                   "lifecycle histories (opens that succeed or fail, closes that succeed, fail or are lost) up to 60 operations.",
           "families": fam_cov(fams), "samples": [sample_script(f) for f in fams[:3]]}
    return {"level": "model_checking", "coverage": cov, "viols": viols, "assumptions": COMMON_ASSUME + [
        "connection dial failures (unresolvable address) are exercised by the UDP driver of C13, not here"]}


CHECKS.update({"C18": c18})


# ----------------------------------------------------------------- vectors (pure layer behaviour)
VEC_ASSUME = ["TLC 1.8 evaluates the specification tables (Layout/LayerTables/Prims/Wire) into (bytes, expected) pairs; the harness "
              "applies them to the library's exported layers and copies TLC's expectation through; TLC (TraceVec.tla) judges equality",
              "fields wider than 8 bits are enumerated at boundaries and walking ones, not exhaustively; cross products of fields are "
              "sampled by two seeded base records, not enumerated"]


def vec_check(pid, tier, seed, work, fam_specs, rule, level="exploration"):
    fam_specs = more_seeds(fam_specs, fam_specs[0].get("tier", "quick") if fam_specs else "quick")
    with cf.ThreadPoolExecutor(max_workers=4) as ex:
        fams = list(ex.map(lambda fs: F.vector_family(work, **fs), fam_specs))
    require_accepted(fams)
    viols = []
    for f in fams:
        for v in f["viols"]:
            for sg in v["sigs"]:
                viols.append({"prop": sg["prop"], "pred": sg["pred"], "ctx": sg.get("ctx"),
                              "where": {"family": f["name"], "vector_id": v.get("id"), "line": v["at"], "params": f["subst"]},
                              "scripts_file": None})
    for v in viols:
        v.pop("scripts_file", None)
    n = sum(f["scripts"] for f in fams)
    samples = []
    for f in fams[:3]:
        try:
            with open(f["scripts_file"]) as fh:
                samples.append({"family": f["name"], "vector": json.loads(fh.readline())})
        except Exception:
            pass
    classes = set()
    for f in fams:
        with open(f["scripts_file"]) as fh:
            for line in fh:
                try:
                    d = json.loads(line)
                    classes.add((d.get("layer"), d.get("class")))
                except Exception:
                    pass
    cov = {"evaluations": n, "distinct_nontrivial": len(classes), "rule": rule + " distinct_nontrivial counts distinct (layer, class) pairs, "
           "a class being the field that varies / the malformation / the ordered pair kind.",
           "families": fam_cov(fams), "samples": samples, "exhaustive": False}
    return {"level": level, "coverage": cov, "viols": viols, "assumptions": VEC_ASSUME}


def _vf(name, family, tier, seed, module="MCGenVec", tpl="Gen_Vec.cfg.tpl"):
    return dict(name=name, module=module, cfg_tpl=tpl, family=family, tier=tier, seed=seed)


def c07(tier, seed, work):
    res = c07_vec(tier, seed, work)
    return add_walk(res, work, [dict(name="c07-api", module="MCGenApi", cfg_tpl="Gen_Cipher.cfg.tpl", family="api", tier=tier, seed=seed),
                                dict(name="c07-sdr-malformed", module="MCGenSdr", cfg_tpl="Gen_Cipher.cfg.tpl", family="malformed", tier=tier, seed=seed)],
                    "Composition: every command through SendCommand outside and inside a session (RMCP + wrapper + [AES] + message + body), "
                    "in table order and reversed; the decoded response must agree with the specification's record.")


def c07_vec(tier, seed, work):
    W = dict(module="MCGenWireVec")
    return vec_check("C07", tier, seed, work, [_vf("c07-caps1", "caps1", tier, seed), _vf("c07-caps2", "caps2", tier, seed),
                                               _vf("c07-rsp", "rsp", tier, seed), _vf("c07-message", "message", tier, seed, **W),
                                               _vf("c07-wrapper", "wrapper", tier, seed, **W), _vf("c07-setup", "setup", tier, seed, **W),
                                               _vf("c07-fsr", "fsr", tier, seed, module="MCGenPrimVec")],
                     "Every response table of LayerTables.tla and DcmiCaps.tla (the five Get DCMI Capabilities Info parameters under conformance "
                     "levels 1.0, 1.1, 1.5 and an unknown one): each field over its whole domain around seeded base records, optional and "
                     "variable-length tails, every body length below the minimum (must be rejected), and each layer decoded after an earlier, "
                     "different response (other values, all ones, longer tail, other conformance level): the value must be the specification's "
                     "whatever was decoded before.")


def add_walk(res, work, fam_specs, note):
    """Merge scripted-connection families (TraceWalk) into a vector check's result."""
    fam_specs = with_past_variants(fam_specs, fam_specs[0].get("tier", "quick") if fam_specs else "quick", fam_specs[0].get("seed", 1) if fam_specs else 1)
    fams = [F.walk_family(work, **fs) for fs in fam_specs]
    require_accepted(fams)
    extra = []
    for f in fams:
        extra += flatten(f)
    attach_scripts(extra)
    res["viols"] += extra
    cov = res["coverage"]
    cov["evaluations"] += sum(f["scripts"] for f in fams)
    cov["distinct_nontrivial"] += sum(f["scripts"] for f in fams)
    cov["families"] += fam_cov(fams)
    cov["traces_validated_against_impl"] = sum(f["scripts"] for f in fams)
    cov["rule"] += " " + note
    return res


def add_console(res, work, fam_specs, note):
    """Merge exhaustive console outcome families (TraceConsole) into a vector check's result."""
    fam_specs = with_past_variants(fam_specs, "quick", 1 + len(fam_specs))
    big = any(fs.get("maxcalls", 0) * fs.get("maxatt", 0) >= 6 for fs in fam_specs)
    with cf.ThreadPoolExecutor(max_workers=1 if big else 3) as ex:
        fams = list(ex.map(lambda fs: F.console_family(work, **fs), fam_specs))
    require_accepted(fams)
    extra = []
    for f in fams:
        extra += flatten(f)
    attach_scripts(extra)
    res["viols"] += extra
    cov = res["coverage"]
    n = sum(f["scripts"] for f in fams)
    cov["evaluations"] += n
    cov["distinct_nontrivial"] += n
    cov["families"] += fam_cov(fams)
    cov["traces_validated_against_impl"] = cov.get("traces_validated_against_impl", 0) + n
    cov["rule"] += " " + note
    return res


def c06(tier, seed, work):
    W = dict(module="MCGenWireVec")
    res = c06_vec(tier, seed, work)
    a, i = suite_for(seed, 2)
    d = 2 if tier == "quick" else 3
    # Open Session Request / RAKP messages of later establishments on a connection that has carried in-session traffic
    hs = [F.handshake_family(work, "c06-longuser", "longuser", tier, seed), F.handshake_family(work, "c06-lifecycle", "lifecycle", tier, seed),
          # every field of the set-up requests for every suite, credential shape, privilege level (also when the BMC grants
          # another level than asked for) and order of preferences on a connection that has negotiated before
          F.handshake_family(work, "c06-honest", "honest", "quick", seed)]
    require_accepted(hs)
    ex = []
    for f in hs:
        ex += flatten(f)
    attach_scripts(ex)
    res["viols"] += ex
    res["coverage"]["families"] += fam_cov(hs)
    res["coverage"]["evaluations"] += sum(f["scripts"] for f in hs)
    res["coverage"]["distinct_nontrivial"] += sum(f["scripts"] for f in hs)
    res["coverage"]["rule"] += " Usernames of 17..516 bytes through NewV2Session: an error, and no RAKP Message 1 with a shortened name."
    res = add_console(res, work, [dict(name="c06-retry-n", insess=False, cmds="CmdsAR", maxcalls=2, maxatt=d, kinds="KindsRetryNS", auth=1, integ=1, codes="CodesAll"),
                                  dict(name="c06-retry-s", insess=True, cmds="CmdsAGH", maxcalls=2, maxatt=d, kinds="KindsRetry", auth=a, integ=i)],
                      "Retransmissions: every outcome sequence of Console.tla (busy, timeout code, garbage, bad signature, lost) in and out of a "
                      "session; every datagram transmitted, first or repeated, must parse as the caller's command.")
    return add_walk(res, work, [dict(name="c06-sensor", module="MCGenSensor", cfg_tpl="Gen_Cipher.cfg.tpl", family="sweep", tier=tier, seed=seed),
                                dict(name="c06-lun-retry", module="MCGenSensor", cfg_tpl="Gen_Cipher.cfg.tpl", family="lun", tier=tier, seed=seed),
                                dict(name="c06-api", module="MCGenApi", cfg_tpl="Gen_Cipher.cfg.tpl", family="api", tier=tier, seed=seed)],
                    "In-session request encodings: Get Sensor Reading to every owner LUN (responses come back from that LUN) followed by "
                    "further requests on the same session; TLC parses each decrypted request (addresses, NetFn/LUN both ways, command, "
                    "data, checksums).")


def c06_vec(tier, seed, work):
    W = dict(module="MCGenWireVec")
    return vec_check("C06", tier, seed, work, [_vf("c06-req", "req", tier, seed), _vf("c06-message", "message", tier, seed, **W),
                                               _vf("c06-setup", "setup", tier, seed, **W)],
                     "Every request table of LayerTables.tla serialised by the library and compared byte-for-byte with Layout!Encode: each "
                     "field over its whole domain; Get Session Info in its three forms; Close Session by ID and by handle.")


def c17(tier, seed, work):
    res = c17_vec(tier, seed, work)
    a, i = suite_for(seed, 3)
    d = 2 if tier == "quick" else 3
    res = add_console(res, work, [dict(name="c17-hist-s", insess=True, cmds="CmdsAB", maxcalls=2 if tier == "quick" else 3, maxatt=d if tier == "quick" else 2, kinds="KindsRetry", auth=a, integ=i),
                                  # (eight outcome kinds outside a session: more than two calls of two attempts is beyond what TLC enumerates in time; thorough adds a command)
                                  dict(name="c17-hist-n", insess=False, cmds="CmdsAR" if tier == "quick" else "CmdsABR", maxcalls=2, maxatt=2, kinds="KindsSessionless", auth=1, integ=1)],
                      "Histories: every outcome sequence of Console.tla for two (thorough: three) consecutive calls on one connection / session; "
                      "the result and transmissions of each later call must be those the reference model predicts from that call's own replies.")
    res = add_hs(res, work, [dict(name="c17-long", family="long", tier=tier, seed=seed)],
                 "80 (thorough: 400) commands in a row on one session per suite: each result is that command's own response.")
    return add_walk(res, work, [dict(name="c17-api", module="MCGenApi", cfg_tpl="Gen_Cipher.cfg.tpl", family="api", tier=tier, seed=seed),
                                dict(name="c17-cipher", module="MCGenCipher", cfg_tpl="Gen_Cipher.cfg.tpl", family="reuse", tier=tier, seed=seed),
                                dict(name="c17-sdr-events", module="MCGenSdr", cfg_tpl="Gen_Cipher.cfg.tpl", family="events17", tier=tier, seed=seed)],
                    "Connection level: every command once on one connection / session in table order and in reverse order; the value decoded "
                    "for each command in the reversed history must still agree with the specification (nothing survives from earlier responses).")


def add_udpwire(res, work, name, tier, seed):
    """The library's own socket transport against a scripted BMC on the loopback, with the datagrams judged (GenTiming family
    `udpwire`): a slow reply, a first reply that is not RMCP, a stray datagram behind the answer. Real time: a violation
    only counts when it reproduces in three independent runs."""
    rt = confirmed_realtime(work, lambda nm: F.walk_family(work, nm, "MCGenTiming", "Gen_Cipher.cfg.tpl", "udpwire", tier, seed, workers=8), name)
    require_accepted([rt])
    ex = flatten(rt)
    attach_scripts(ex)
    res["viols"] += ex
    res["coverage"]["families"] += fam_cov([rt])
    res["coverage"]["evaluations"] += rt["scripts"]
    res["coverage"]["distinct_nontrivial"] += rt["scripts"]
    res["coverage"]["rule"] += (" Over UDP loopback with the library's own transport, every datagram judged: an in-session reply that takes "
                                "three quarters of the per-attempt timeout, a first reply that is not RMCP (empty, shorter than the header, "
                                "another version), a session-less retransmission whose answer is followed by a stray datagram "
                                "(three-fold reproduction for a violation).")
    return res


def add_hs(res, work, hs_specs, note):
    """Merge handshake-trace families (TraceHandshake) into another check's result."""
    hs = [F.handshake_family(work, **fs) for fs in hs_specs]
    require_accepted(hs)
    extra = []
    for f in hs:
        extra += flatten(f)
    attach_scripts(extra)
    res["viols"] += extra
    n = sum(f["scripts"] for f in hs)
    res["coverage"]["evaluations"] += n
    res["coverage"]["distinct_nontrivial"] += n
    res["coverage"]["families"] += fam_cov(hs)
    res["coverage"]["rule"] += " " + note
    return res


def c17_vec(tier, seed, work):
    W = dict(module="MCGenWireVec")
    return vec_check("C17", tier, seed, work, [_vf("c17-reuse", "reuse", tier, seed), _vf("c17-message", "message", tier, seed, **W),
                                               _vf("c17-wrapper", "wrapper", tier, seed, **W)],
                     "For every tabulated response layer every ordered pair (earlier, later) of members of different classes (full, other "
                     "values, all zeros, all ones, with/without optional tail, short forms): decode later into the used value and into a "
                     "fresh one; TLC requires equality.")


def c05(tier, seed, work):
    res = c05_vec(tier, seed, work)
    a5, i5 = suite_for(seed, 8)
    res = add_walk(res, work, [dict(name="c05-keyed", module="MCGenForge", cfg_tpl="Gen_Forge.cfg.tpl", family="forge", tier=tier, seed=seed,
                                    extra_subst=dict(AUTH=a5, INTEG=i5))],
                   "A party that knows the session keys: correctly signed and encrypted packets around every truncation of the inner "
                   "message, a checksum-valid response without completion code, wrong checksums, malformed confidentiality payloads, "
                   "other payload types.")
    res = add_walk(res, work, [dict(name="c05-discovery", module="MCGenCipher", cfg_tpl="Gen_Cipher.cfg.tpl", family="discovery", tier=tier, seed=seed),
                               dict(name="c05-endless", module="MCGenCipher", cfg_tpl="Gen_Cipher.cfg.tpl", family="endless", tier=tier, seed=seed),
                               dict(name="c05-dcmi-odd", module="MCGenDcmi", cfg_tpl="Gen_Cipher.cfg.tpl", family="odd", tier=tier, seed=seed),
                               dict(name="c05-sdr", module="MCGenSdr", cfg_tpl="Gen_Cipher.cfg.tpl", family="plain", tier="quick", seed=seed, opts={"exact": True}),
                               dict(name="c05-sdr-faults", module="MCGenSdr", cfg_tpl="Gen_Cipher.cfg.tpl", family="faults", tier=tier, seed=seed, opts={"exact": True}),
                               dict(name="c05-sdr-faults-buf", module="MCGenSdr", cfg_tpl="Gen_Cipher.cfg.tpl", family="faults", tier=tier, seed=seed)],
                   "Protocol positions: malformed and truncated cipher-suite record data during discovery; SDR walks with exact-capacity "
                   "receive slices.")
    # every reply of the handshake substituted (bit flips, status, tags, truncation at every length, short payloads), exact-capacity slices
    hs = [F.handshake_family(work, "c05-hs-mutate", "mutate", tier, seed, opts={"exact": True}),
          F.handshake_family(work, "c05-hs-triples", "triples", tier, seed, opts={"exact": True})]
    require_accepted(hs)
    extra = []
    for f in hs:
        extra += flatten(f)
    attach_scripts(extra)
    res["viols"] += extra
    res["coverage"]["evaluations"] += sum(f["scripts"] for f in hs)
    res["coverage"]["distinct_nontrivial"] += sum(f["scripts"] for f in hs)
    res["coverage"]["families"] += fam_cov(hs)
    res["coverage"]["rule"] += (" Every handshake reply substituted by each mutation of GenHandshake.tla (single-bit flips, all status codes and "
                                "tags, truncation at every length, short payloads with consistent length fields, every algorithm triple) with "
                                "exact-capacity slices; in-session substitutions (garbage, truncation at every length, keyed-adversary payloads) "
                                "are the C04 tamper family.")
    return res


def c05_vec(tier, seed, work):
    W = dict(module="MCGenWireVec")
    return vec_check("C05", tier, seed, work, [_vf("c05-total", "totality", tier, seed), _vf("c05-reuse", "reuse", tier, seed), _vf("c05-history", "rsp", tier, seed),
                                               _vf("c05-message", "message", tier, seed, **W),
                                               _vf("c05-wrapper", "wrapper", tier, seed, **W), _vf("c05-setup", "setup", tier, seed, **W),
                                               _vf("c05-aes", "aes", tier, seed, **W)],
                     "Totality of every decodable layer (28 layers): pseudo-random strings of many lengths incl. 500..512, constant strings, "
                     "every prefix and single-byte substitution {00,7F,80,FF} at every offset of valid encodings; each decoded on an "
                     "exact-capacity slice and inside a 512-byte buffer with two fillings (results must agree).")


def c08(tier, seed, work):
    W = dict(module="MCGenWireVec")
    return vec_check("C08", tier, seed, work, [_vf("c08-message", "message", tier, seed, **W), _vf("c08-wrapper", "wrapper", tier, seed, **W),
                                               _vf("c08-setup", "setup", tier, seed, **W), _vf("c08-aes", "aes", tier, seed, **W)],
                     "Each value of the two-way layers (IPMI message for all 64 NetFn values with every completion code, command, address, "
                     "sequence/LUN, body code, enterprise number and payload lengths 0..40; v2.0 wrapper for IPMI/SOL/OEM-explicit/set-up/OEM-handle "
                     "payload types, unauthenticated and authenticated under the three integrity algorithms with payloads 0..200; v1.5 wrapper for "
                     "every authentication type; RAKP Message 1 for usernames 0..32 bytes; AES-128-CBC for payloads 0..200 with fresh and reused "
                     "buffers) is emitted as a serialise vector and as a decode vector against the same specification encoding, which is the "
                     "round trip in both directions; AuthCodes are HMAC terms evaluated with the standard library.")


def c20(tier, seed, work):
    P = dict(module="MCGenPrimVec")
    return vec_check("C20", tier, seed, work, [_vf("c20-prims", "prims", tier, seed, **P), _vf("c20-checksum", "checksum", tier, seed, **P),
                                               _vf("c20-fsrtwos", "fsrtwos", tier, seed, **P), _vf("c20-fsr", "fsr", tier, seed, **P)],
                     "Prims.tla defines each conversion mathematically (TLC checks its internal theorems); complete tables are evaluated and "
                     "reached through the exported API: 3 analog parsers x 256; 128 entity instances; BCD over all 256 bytes (Get Device ID) and "
                     "the reversed-nibble SDR version; two's complement: all 1 024 values of M, B and accuracy and all 256 exponent pairs "
                     "(Full Sensor Record); checksums over header-byte pairs and data bytes (Message); BCD-plus every nibble at every length "
                     "0..31; packed 6-bit every code at (sampled in quick, all in thorough) every position for lengths 0..31; Latin-1 all 256 "
                     "bytes and lengths; rolling-average byte -> duration for all 256 bytes, duration -> byte at every unit boundary +-2 s and "
                     "a stride (not every second up to 64 days: stated limit).")


CHECKS.update({"C05": c05, "C06": c06, "C07": c07, "C08": c08, "C17": c17, "C20": c20})


def c13(tier, seed, work):
    mcs = [F.model_check("Timing", c, work, workers=4) for c in
           ["MC_Timing_TRUE_2.cfg", "MC_Timing_TRUE_3.cfg", "MC_Timing_TRUE_7.cfg", "MC_Timing_FALSE_2.cfg", "MC_Timing_FALSE_3.cfg", "MC_Timing_FALSE_7.cfg",
            "MC_Timing_Hist.cfg"]]
    killed = []
    for cfg, inv in [("Mutant_Timing_Nested.cfg", "C13_NeverBlocksPastDeadline"), ("Mutant_Timing_Backoff.cfg", "C13_NeverBlocksPastDeadline"),
                     ("Mutant_Timing_OwnCtx.cfg", "C13_NeverBlocksPastDeadline")]:
        if not F.expect_violation("Timing", cfg, work, inv):
            raise vlib.Inconclusive("model mutant %s did not violate %s" % (cfg, inv))
        killed.append({"cfg": cfg, "violates": inv})
    # real time over UDP loopback; a timing violation must reproduce in three independent runs
    runs = []
    sigsets = []
    for attempt in range(3):
        f = F.walk_family(work, "c13-udp-%d" % attempt, "MCGenTiming", "Gen_Cipher.cfg.tpl", "all", tier, seed, workers=16 if tier == "quick" else 8)
        require_accepted([f])
        runs.append(f)
        v = flatten(f)
        sigsets.append({(x["prop"], x["pred"], x["where"]["script_index"]) for x in v if x["prop"] == "C13"})
        if not sigsets[-1]:
            break
    viols = []
    if len(sigsets) == 3 and sigsets[0] & sigsets[1] & sigsets[2]:
        keep = sigsets[0] & sigsets[1] & sigsets[2]
        viols = [x for x in flatten(runs[-1]) if (x["prop"], x["pred"], x["where"]["script_index"]) in keep]
        attach_scripts(viols)
    last = runs[-1]
    # "no call reports success without having received a valid response": every outcome sequence of Console.tla, including
    # commands whose response has no body (nothing but a received datagram distinguishes success from silence)
    a, i = suite_for(seed, 4)
    d = 2 if tier == "quick" else 3
    odd = F.walk_family(work, "c13-dcmi-odd", "MCGenDcmi", "Gen_Cipher.cfg.tpl", "odd", tier, seed)
    # malformed cipher suite record data: the discovery returns (an error) instead of spinning past any deadline
    disc = F.walk_family(work, "c13-discovery", "MCGenCipher", "Gen_Cipher.cfg.tpl", "discovery13", tier, seed)
    require_accepted([odd, disc])
    ov = flatten(odd) + flatten(disc)
    attach_scripts(ov)
    viols += ov
    hsm = F.handshake_family(work, "c13-hs-mutate", "mutate", tier, seed)
    require_accepted([hsm])
    hv = flatten(hsm)
    attach_scripts(hv)
    viols += hv
    cons = [F.console_family(work, "c13-nobody-s", True, "CmdsAC", 2, d, "KindsRetry", a, i),
            F.console_family(work, "c13-nobody-n", False, "CmdsCR", 2, d, "KindsRetryNS", 1, 1),
            # refusals (a completion code and nothing else) of commands whose response has a body, then another call on the connection
            F.console_family(work, "c13-refused-n", False, "CmdsAB", 2, 2, "KindsRetryNS", 1, 1, codes="CodesOkErr"),
            F.console_family(work, "c13-refused-s", True, "CmdsAB", 2, 2, "KindsRetry", a, i, codes="CodesOkErr")]
    require_accepted(cons)
    cv = []
    for f in cons:
        cv += flatten(f)
    attach_scripts(cv)
    viols += cv
    runs_cov = fam_cov(cons)
    cov = {"states": sum(m["distinct"] for m in mcs), "transitions": sum(m["generated"] for m in mcs), "model_checking": mcs,
           "model_mutants_killed": killed, "traces_validated_against_impl": last["scripts"] + sum(f["scripts"] for f in cons),
           "events_validated": last["events"] + sum(f["events"] for f in cons), "console_families": runs_cov,
           "evaluations": sum(r["scripts"] for r in runs), "distinct_nontrivial": last["scripts"], "runs": len(runs),
           "rule": "Timing.tla (integer clock; per-attempt timeout nested in the context; back-off bounded by the context) checked "
                   "exhaustively for deadline/timeout ratios <1, 1, >1, in and out of a session, with both nesting guards as mutants. "
                   "Real time: every blocking call (session-less command, each handshake leg, in-session command, close, SDR retrieval) x "
                   "{black hole, reply after the per-attempt timeout, garbage, temporary code forever, truncated handshake reply, permanent "
                   "error for SDR} x deadline/timeout ratios 0.25, 1, 3, plus each call with an already expired deadline, over UDP loopback "
                   "with the library's own transport and back-off; allowance max(150 ms, 0.3 x deadline); a violation must reproduce in 3 runs.",
           "families": fam_cov(runs), "samples": [sample_script(last)]}
    return {"level": "model_checking", "coverage": cov, "viols": viols, "assumptions": [
        "wall-clock measurements on a shared machine: allowance max(150 ms, 0.3 x deadline), three-fold reproduction",
        "cancellation (as opposed to deadline expiry) is not asserted: the property speaks of deadlines"]}


CHECKS.update({"C13": c13})


def c19(tier, seed, work):
    mcs = [F.model_check("Concurrent", "MC_Concurrent.cfg", work, workers=4)]
    if not F.expect_violation("Concurrent", "Mutant_Concurrent_Shared.cfg", work, "C19_SameAsAlone"):
        raise vlib.Inconclusive("model mutant Mutant_Concurrent_Shared.cfg did not violate C19_SameAsAlone")
    vlib.build_harness(race=True)
    t = "quick"
    specs = [("hs", dict(family="honest", tier=t, seed=seed)),
             ("walk", dict(module="MCGenSdr", cfg_tpl="Gen_Cipher.cfg.tpl", family="plain", tier=t, seed=seed)),
             ("walk", dict(module="MCGenSdr", cfg_tpl="Gen_Cipher.cfg.tpl", family="events", tier=t, seed=seed)),
             ("walk", dict(module="MCGenDcmi", cfg_tpl="Gen_Cipher.cfg.tpl", family="paging", tier=t, seed=seed)),
             ("walk", dict(module="MCGenCipher", cfg_tpl="Gen_Cipher.cfg.tpl", family="selection", tier=t, seed=seed)),
             ("walk", dict(module="MCGenSensor", cfg_tpl="Gen_Cipher.cfg.tpl", family="misc", tier=t, seed=seed)),
             # connections opened, used and closed (twice: an explicit Close followed by a deferred one) while others are being created
             ("hs", dict(family="lifecycle", tier=t, seed=seed, opts={"closeTwice": True})),
             # every connection's password and key are sub-slices of one buffer the application read its credentials into
             ("hs", dict(family="honest", tier=t, seed=seed + 1, opts={"credArena": True}))]
    ns = [8] if tier == "quick" else [2, 4, 8, 16]
    if tier == "quick":
        specs = [sp for i, sp in enumerate(specs) if i in (0, 1, 3, 4, 6, 7)]
    viols, fams, races, diffs, compared = [], [], 0, 0, 0

    def run(kind, kw, name, workers):
        # the baseline is each workload truly alone: a process of its own per script (16 at a time)
        iso = workers == 1
        if kind == "hs":
            return F.handshake_family(work, name=name, workers=16 if iso else workers, race=not iso, isolate=iso, **kw)
        return F.walk_family(work, name=name, workers=16 if iso else workers, race=not iso, isolate=iso, **kw)

    jobs = [(idx, kind, kw, n) for idx, (kind, kw) in enumerate(specs) for n in [1] + ns]
    with cf.ThreadPoolExecutor(max_workers=4) as ex:
        done = list(ex.map(lambda j: (j, run(j[1], j[2], ("c19-solo-%d" % j[0]) if j[3] == 1 else ("c19-n%d-%d" % (j[3], j[0])), j[3])), jobs))
    results = {(j[0], j[3]): r for j, r in done}
    for idx, (kind, kw) in enumerate(specs):
        solo = results[(idx, 1)]
        base = F.normalised(solo["traces"])
        fams.append(solo)
        for n in ns:
            conc = results[(idx, n)]
            fams.append(conc)
            races += conc["replay_info"].get("race_reports", 0)
            if conc["replay_info"].get("race_reports", 0):
                viols.append({"prop": "C19", "pred": "no-data-race", "ctx": {"goroutines": n, "family": conc["name"]},
                              "where": {"family": conc["name"], "race_report": conc["replay_info"].get("stderr", "")[-3000:]}})
            got = F.normalised(conc["traces"])
            for key, evs in base.items():
                k2 = (key[0].replace("c19-solo", "c19-n%d" % n), key[1])
                compared += 1
                if got.get(k2) != evs:
                    diffs += 1
                    if diffs <= 5:
                        viols.append({"prop": "C19", "pred": "results-identical-to-the-same-workload-run-alone",
                                      "ctx": {"goroutines": n, "family": conc["name"].split("-")[-1]},
                                      "where": {"family": conc["name"], "script_id": key[1], "solo": evs[-3:], "concurrent": (got.get(k2) or [])[-3:]}})
            for v in flatten(conc):
                if v["prop"] == "HARNESS" and v["pred"] == "prefixFailed" and not any(x["prop"] == "HARNESS" for x in flatten(solo)):
                    # the same script established its session when run alone (the solo family was accepted without harness
                    # errors): that it cannot next to the others is interference
                    viols.append(dict(v, prop="C19", pred="results-identical-to-the-same-workload-run-alone"))
                    continue
                viols.append(v)
    require_accepted(fams)
    for v in viols:
        v.pop("scripts_file", None)
    nscripts = sum(f["scripts"] for f in fams)
    cov = {"states": sum(m["distinct"] for m in mcs), "transitions": sum(m["generated"] for m in mcs), "model_checking": mcs,
           "model_mutants_killed": [{"cfg": "Mutant_Concurrent_Shared.cfg", "violates": "C19_SameAsAlone"}],
           "traces_validated_against_impl": nscripts, "events_validated": sum(f["events"] for f in fams),
           "evaluations": nscripts, "distinct_nontrivial": compared, "race_reports": races, "workloads_compared_with_solo": compared,
           "rule": "Concurrent.tla states non-interference (each connection's result equals its solo result under every interleaving; "
                   "package tables read-only) and is checked with a shared-state mutant. The harness is built with -race; workloads "
                   "(handshakes + commands for all suites and credential shapes, SDR walks with and without modifications, DCMI paging, "
                   "cipher-suite discovery with default and explicit preferences, sensor readers) run alone and then on N goroutines, "
                   "one scripted BMC each; every concurrent trace is validated by TLC with the single-connection trace specification and "
                   "compared event-by-event (random IVs / console randoms / timings removed) with the solo run of the same script; any "
                   "race-detector report is a violation. Schedules are those the Go runtime produces, not enumerated.",
           "families": fam_cov(fams[:12]), "samples": [sample_script(fams[0])]}
    return {"level": "exploration", "coverage": cov, "viols": viols, "assumptions": COMMON_ASSUME + [
        "data-race detection is done by the Go race detector during the conformance run, not by TLC"]}


CHECKS.update({"C19": c19})
