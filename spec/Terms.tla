------------------------------- MODULE Terms -------------------------------
(* Symbolic byte-string terms.  The specification builds datagrams as trees of
   these; the Go harness evaluates them with the standard library (it knows the
   operators below and nothing about IPMI).  TLen computes every term's length
   inside TLA+, so length fields and pad arithmetic are specification arithmetic. *)
EXTENDS Bytes

B(v)             == [op |-> "bytes", v |-> v]
Cat(parts)       == [op |-> "cat", parts |-> parts]
Hmac(a, k, mm)   == [op |-> "hmac", alg |-> a, key |-> k, msg |-> mm]
Trunc(t, n)      == [op |-> "trunc", n |-> n, of |-> t]
Slice(t, f, to)  == [op |-> "slice", of |-> t, from |-> f, to |-> to]   \* negative = from the end; to = -1 = end
Aes(k, iv, p)    == [op |-> "aescbc", key |-> k, iv |-> iv, plain |-> p]
AesDec(k, iv, c) == [op |-> "aescbcdec", key |-> k, iv |-> iv, ct |-> c]
Req              == [op |-> "obs", what |-> "req"]                     \* the datagram just transmitted
Cap(name, t)     == [op |-> "capture", name |-> name, of |-> t]
Var(name)        == [op |-> "var", name |-> name]
Ref(name)        == [op |-> "ref", name |-> name]
Eq(a, b)         == [op |-> "eq", a |-> a, b |-> b]
And(parts)       == [op |-> "and", parts |-> parts]
Flip(t, bit)     == [op |-> "flip", of |-> t, bit |-> bit]
SetByte(t, at, v) == [op |-> "setbyte", of |-> t, at |-> at, v |-> v]
AddByte(t, at, v) == [op |-> "addbyte", of |-> t, at |-> at, v |-> v]     \* byte at `at` plus v modulo 256
SliceDyn(t, from, lenfrom, base) == [op |-> "slicedyn", of |-> t, from |-> from, lenfrom |-> lenfrom, base |-> base]
SliceBy(t, fromAt, lenAt) == [op |-> "sliceby", of |-> t, fromAt |-> fromAt, lenAt |-> lenAt]

\* operators whose length is only known when the harness evaluates them (replies that depend on the request)
Lookup(key, table, default) == [op |-> "lookup", key |-> key, table |-> table, default |-> default]
DynLen16(t)  == [op |-> "len16", of |-> t]
DynPadSeq(t) == [op |-> "padseq", of |-> t, block |-> 16]           \* 13.29 confidentiality trailer
DynPadFF(t)  == [op |-> "padff", of |-> t, align |-> 4, last |-> 7]  \* 13.28.4 integrity pad, pad length, next header
State16(name) == [op |-> "state16", name |-> name]                  \* a scripted-BMC counter (rule effects)
Cksum(t)     == [op |-> "cksum", of |-> t]                          \* 13.8 two's complement checksum

DigestLen(a) == CASE a = "sha1" -> 20 [] a = "md5" -> 16 [] a = "sha256" -> 32
\* lengths of named captures and shared definitions used by the scripts
VarLen(n) == CASE n \in {"tag1", "tag2", "tag3", "mk"} -> 1 [] n \in {"sidM", "bseq"} -> 4
               [] n \in {"Rm", "iv"} -> 16 [] OTHER -> 0
RECURSIVE TLen(_), SumLens(_)
SumLens(ps) == IF ps = <<>> THEN 0 ELSE TLen(Head(ps)) + SumLens(Tail(ps))
TLen(t) == CASE t.op = "bytes" -> Len(t.v)
             [] t.op = "cat" -> SumLens(t.parts)
             [] t.op = "hmac" -> DigestLen(t.alg)
             [] t.op = "trunc" -> t.n
             [] t.op = "slice" -> t.to - t.from
             [] t.op = "var" -> VarLen(t.name)
             [] t.op = "aescbc" -> TLen(t.plain)
             [] t.op = "flip" -> TLen(t.of)
             [] t.op = "setbyte" -> TLen(t.of)
             [] t.op = "addbyte" -> TLen(t.of)
             [] t.op = "cksum" -> 1
             [] t.op = "lookup" -> TLen(t.default)
             [] t.op = "ref" -> IF t.name \in {"EchoS", "EchoN"} THEN 1 ELSE 0
Len16(t) == B(LE16(TLen(t)))
=============================================================================
