---------------------------- MODULE TraceConsole ----------------------------
(* Trace validation for the command families (session-less and in-session
   SendCommand): recorded executions of the real library are read back and
   every property predicate is evaluated by TLC at every event.

   The trace specification is an observer: every event is consumable, so a
   deviation never hides the rest of the trace.  Deviations are collected as
   signatures [prop, pred, ctx]; the check fails (POSTCONDITION) exactly when a
   signature outside the committed known-findings list occurred, or when not
   every event was consumed.

   TLC parses every transmitted datagram itself (Wire!ParseWrapper,
   StripConfPad, ParseReqMsg); the harness only supplies the AuthCode verdict
   and the decrypted payload, both computed from the key terms of Crypto.tla.
   The reference model's predictions (Console.tla's `sent` and `results` for
   this very behaviour) arrive in the reset event and are compared with what
   the code did. *)
EXTENDS Wire, Json, IOUtils, TLC, FiniteSets, MetricsLaw

Trace == ndJsonDeserialize(IOEnv.VERIF_TRACE)
Cfg   == JsonDeserialize(IOEnv.VERIF_TRACECFG)      \* [integLen, bmcSid, cmds, known]
Known == Cfg.known
IntegLen == Cfg.integLen
BmcSid == Cfg.bmcSid
CmdTab == Cfg.cmds                                  \* label -> [netfn, num, body]

CcByte(cc) == CASE cc = "ok" -> 0 [] cc = "err" -> 193 [] cc = "busy" -> 192 [] cc = "tmo" -> 195 [] OTHER -> -1
TempCodes == {192, 195}

VARIABLES l,        \* next event
          viol,     \* signatures collected so far
          seqN,     \* in-session transmissions so far in this script
          txN,      \* transmissions so far in this script
          callN,    \* calls so far in this script
          cur,      \* label of the current call
          att,      \* transmissions of the current call
          kinds,    \* classes of the replies seen so far in the current call
          lastRx,   \* the newest rx event of the current call
          dead,     \* a transport failure was seen in the current call
          firstRaw, \* first transmission of the current call (session-less retransmissions must equal it)
          ivs,      \* IVs used so far in this script
          pred,     \* the reference model's prediction for this script
          insess,   \* this script runs inside a session
          prevM,    \* previous metrics snapshot (C18), or NoEv
          mcall     \* what happened since then: [kind, name, err, ntx, codes]
vars == <<l, viol, seqN, txN, callN, cur, att, kinds, lastRx, dead, firstRaw, ivs, pred, insess, prevM, mcall>>

NoEv == [ev |-> "none"]
NoPred == [sent |-> <<>>, results |-> <<>>, insess |-> FALSE]
NoCall == [kind |-> "none", name |-> "", err |-> FALSE, ntx |-> 0, codes |-> <<>>]
DialCall == [NoCall EXCEPT !.kind = "dial"]
Init == /\ l = 1 /\ viol = {} /\ seqN = 0 /\ txN = 0 /\ callN = 0 /\ cur = "none" /\ att = 0 /\ kinds = {}
        /\ lastRx = NoEv /\ dead = FALSE /\ firstRaw = <<>> /\ ivs = {} /\ pred = NoPred /\ insess = FALSE
        /\ prevM = NoEv /\ mcall = NoCall

Ev == Trace[l]
Has(r, f) == f \in DOMAIN r

\* ------------------------------------------------------------- observer steps
Reset == /\ Ev.ev = "reset"
         /\ seqN' = 0 /\ txN' = 0 /\ callN' = 0 /\ cur' = "none" /\ att' = 0 /\ kinds' = {} /\ lastRx' = NoEv
         /\ dead' = FALSE /\ firstRaw' = <<>> /\ ivs' = {}
         /\ pred' = IF Has(Ev, "abstract") THEN Ev.abstract ELSE NoPred
         /\ insess' = IF Has(Ev, "abstract") THEN Ev.abstract.insess ELSE FALSE
         /\ prevM' = NoEv /\ mcall' = NoCall
Call  == /\ Ev.ev = "call"
         /\ callN' = callN + 1 /\ cur' = Ev.label /\ att' = 0 /\ kinds' = {} /\ lastRx' = NoEv /\ dead' = FALSE
         /\ firstRaw' = <<>>
         /\ mcall' = [kind |-> "command", name |-> CmdTab[Ev.label].name, err |-> FALSE, ntx |-> 0, codes |-> <<>>]
         /\ UNCHANGED <<seqN, txN, ivs, pred, insess, prevM>>
Tx    == /\ Ev.ev = "tx"
         /\ txN' = txN + 1 /\ att' = att + 1 /\ seqN' = IF insess THEN seqN + 1 ELSE seqN
         /\ firstRaw' = IF att = 0 THEN Ev.raw ELSE firstRaw
         /\ ivs' = IF insess /\ Len(Ev.raw) >= 32 THEN ivs \cup {Sub(Ev.raw, 16, 32)} ELSE ivs
         /\ mcall' = [mcall EXCEPT !.ntx = @ + 1]
         /\ UNCHANGED <<callN, cur, kinds, lastRx, dead, pred, insess, prevM>>
\* a datagram the specification counts as a valid response to the current command (Console!Accept)
ValidRsp(e) == /\ Has(e, "attrs") /\ e.attrs.dec /\ e.attrs.forCmd = cur
               /\ (insess => (e.attrs.sig /\ e.attrs.flag /\ e.attrs.sid = "mine"))
RxClass(e) == IF Has(e, "timeout") THEN "timeout" ELSE IF Has(e, "xerr") THEN "xerr"
              ELSE IF Has(e, "attrs") THEN e.attrs.kind \o (IF e.attrs.kind = "final" THEN "-" \o e.attrs.cc ELSE "") ELSE "unknown"
Rx    == /\ Ev.ev = "rx"
         /\ lastRx' = Ev /\ kinds' = kinds \cup {RxClass(Ev)}
         /\ dead' = (dead \/ Has(Ev, "timeout") \/ Has(Ev, "xerr"))
         /\ mcall' = IF ValidRsp(Ev) THEN [mcall EXCEPT !.codes = Append(@, CcByte(Ev.attrs.cc))] ELSE mcall
         /\ UNCHANGED <<seqN, txN, callN, cur, att, firstRaw, ivs, pred, insess, prevM>>
Other == /\ Ev.ev \notin {"reset", "call", "tx", "rx"}
         /\ mcall' = (IF Ev.ev = "ret" /\ Has(Ev, "err") THEN [mcall EXCEPT !.err = Ev.err] ELSE IF Ev.ev = "metrics" THEN (IF Ev.at = "start" THEN DialCall ELSE NoCall) ELSE mcall)
         /\ prevM' = (IF Ev.ev = "metrics" THEN Ev.m ELSE prevM)
         /\ UNCHANGED <<seqN, txN, callN, cur, att, kinds, lastRx, dead, firstRaw, ivs, pred, insess>>
Step == Reset \/ Call \/ Tx \/ Rx \/ Other

\* -------------------------------------------------------------- predicates
Ctx == [attempt |-> IF (IF Ev.ev = "tx" THEN att + 1 ELSE att) > 1 THEN "retry" ELSE "first", after |-> kinds]
Check(prop, pred_, ok) == IF ok THEN {} ELSE {[prop |-> prop, pred |-> pred_, ctx |-> Ctx]}
CmdOk(mm) == /\ mm.ok /\ mm.rsAddr = 32 /\ mm.rsLun = 0
             /\ mm.netfn = CmdTab[cur].netfn /\ mm.cmd = CmdTab[cur].num /\ mm.data = CmdTab[cur].wire
PredSent == IF txN + 1 <= Len(pred.sent) THEN pred.sent[txN + 1] ELSE [call |-> -1, seq |-> -1]
PredRes  == IF callN >= 1 /\ callN <= Len(pred.results) THEN pred.results[callN] ELSE [err |-> "none", code |-> "none"]
PredTxOfCall == Cardinality({i \in 1..Len(pred.sent) : pred.sent[i].call = callN})

MarkerOf(e) == IF ~Has(e, "value") THEN -1
               ELSE IF Has(e.value, "ID") THEN e.value.ID
               ELSE IF Has(e.value, "GUID") THEN e.value.GUID[1]
               ELSE IF Has(e.value, "data") /\ Len(e.value.data) > 0 THEN e.value.data[1] ELSE -1

TxViol(e) ==
  IF insess
  THEN LET w  == ParseWrapper(e.raw, IntegLen)
           p  == IF Has(e, "plain") /\ Len(e.plain) > 0 THEN StripConfPad(e.plain) ELSE Reject("noplain")
           mm == IF p.ok THEN ParseReqMsg(p.msg) ELSE Reject("nopad")
       IN Check("C09", "seq-consecutive", w.ok /\ w.seq = LE32s(seqN + 1))
          \cup Check("C03", "addressed-to-bmc-session", w.ok /\ w.sid = BmcSid)
          \cup Check("C03", "wrapper-flags-integrity-pad-authcode",
                     w.ok /\ w.enc = 1 /\ w.auth = 1 /\ w.ptype = 0 /\ Has(e, "authOK") /\ e.authOK)
          \cup Check("C03", "confidentiality-iv-ciphertext-pad",
                     w.ok /\ p.ok /\ w.plen = 16 + Len(e.plain) /\ p.n = ConfPadLen(Len(p.msg)))
          \cup Check("C03", "inner-message-is-called-command", CmdOk(mm))
          \cup Check("C06", "every-transmission-encodes-the-callers-command", CmdOk(mm))
          \cup Check("C01", "command-passes-bmc-integrity-and-decryption", w.ok /\ w.sid = BmcSid /\ Has(e, "authOK") /\ e.authOK /\ p.ok /\ mm.ok)
          \cup Check("C03", "iv-fresh", Len(e.raw) >= 32 /\ Sub(e.raw, 16, 32) \notin ivs)
          \* C17: nothing of the replies received so far may show in what is sent next (e.g. an AuthCode computed over leftovers)
          \cup (IF txN > 0 THEN Check("C17", "packet-sent-after-earlier-replies-is-what-a-fresh-session-would-send",
                                      CmdOk(mm) /\ w.ok /\ w.sid = BmcSid /\ Has(e, "authOK") /\ e.authOK /\ p.ok) ELSE {})
          \cup Check("C10", "retransmission-is-same-command",
                     att = 0 \/ (CmdOk(mm) /\ w.ok /\ w.sid = BmcSid /\ Has(e, "authOK") /\ e.authOK /\ p.ok))
          \cup Check("C10", "no-tx-after-transport-failure", ~dead)
          \cup Check("C10", "tx-predicted-by-reference-model", PredSent.call = callN)
  ELSE LET w  == ParseWrapper(e.raw, 0)
           mm == IF w.ok THEN ParseReqMsg(w.payload) ELSE Reject("nowrapper")
       IN Check("C09", "sessionless-null-session",
                w.ok /\ w.sid = <<0, 0, 0, 0>> /\ w.seq = <<0, 0, 0, 0>> /\ w.auth = 0 /\ w.enc = 0 /\ w.ptype = 0)
          \cup Check("C10", "retransmission-is-same-command", CmdOk(mm) /\ (att = 0 \/ e.raw = firstRaw))
          \cup Check("C06", "every-transmission-encodes-the-callers-command", CmdOk(mm))
          \cup Check("C10", "tx-predicted-by-reference-model", PredSent.call = callN)

RetViol(e) ==
  Check("C05", "no-panic-no-hang", ~Has(e, "panic") /\ ~Has(e, "hang"))
  \* a call the watchdog gave up on long after its context's deadline (whatever went before on the connection)
  \cup Check("C13", "returns-once-its-context-has-expired", ~(Has(e, "hang") /\ Has(e, "ctxMs") /\ e.ctxMs + 1000 <= e.wdogMs))
  \cup
  (IF Has(e, "panic") \/ Has(e, "hang") \/ ~Has(e, "err") THEN {}
   ELSE LET hasA == Has(lastRx, "attrs")
            a == lastRx.attrs
            coded == Has(e, "code") /\ (~e.err \/ e.code # 0)      \* a completion code was returned
        IN (IF ~e.err \/ (Has(e, "code") /\ e.code # 0)
            THEN \* the call completed on the basis of a datagram: it must be the right one
                 Check("C04", "accepted-authentic",
                       ~insess \/ (hasA /\ a.sig /\ a.flag /\ a.sid = "mine" /\ a.dec))
                 \cup Check("C11", "accepted-matches-request", hasA /\ a.forCmd = cur)
                 \cup Check("C10", "final-code", e.code \notin TempCodes)
                 \cup Check("C10", "code-and-value-from-accepted-response",
                            (hasA /\ a.forCmd = cur /\ a.dec) =>
                               (e.code = CcByte(a.cc) /\ ((a.cc = "ok" /\ a.bodyOK) => (~e.err /\ (CmdTab[cur].nobody \/ MarkerOf(e) = a.mk)))))
                 \cup Check("C13", "success-has-valid-response", hasA /\ a.dec)
            ELSE {})
           \cup Check("C10", "result-predicted-by-reference-model",
                      /\ PredRes.err = e.err
                      /\ (PredRes.code # "none" => (Has(e, "code") /\ e.code = CcByte(PredRes.code)))
                      /\ (~e.err => (hasA /\ PredRes.from.call = a.call /\ PredRes.from.n = a.n)))
           \cup Check("C10", "transmissions-predicted-by-reference-model", att = PredTxOfCall)
           \* C17: the same judgement for every call after the first of a history on one connection / session
           \cup (IF callN > 1
                 THEN Check("C17", "result-of-a-later-call-independent-of-what-preceded-it",
                            /\ PredRes.err = e.err /\ att = PredTxOfCall
                            /\ (PredRes.code # "none" => (Has(e, "code") /\ e.code = CcByte(PredRes.code)))
                            /\ (~e.err => (hasA /\ PredRes.from.call = a.call /\ PredRes.from.n = a.n)))
                 ELSE {}))

NewViol == LET e == Ev IN
  IF e.ev = "tx" THEN TxViol(e)
  ELSE IF e.ev = "ret" THEN RetViol(e)
  ELSE IF e.ev = "pastBroke" THEN Check("C17", "works-whatever-the-connection-did-before", FALSE)
                                  \cup Check("C05", "no-panic-no-hang", ~(Has(e, "panic") /\ e.panic # "nil"))
                                  \cup (IF e["in"] = "prefix" THEN Check("C01", "honest-handshake-succeeds", FALSE) ELSE {})
  ELSE IF e.ev = "session" THEN Check("C01", "keys-agree", e.have /\ e.sikOK /\ e.k1OK /\ e.k2OK)
  ELSE IF e.ev \in {"harnessError", "prefixFailed"} THEN Check("HARNESS", e.ev, FALSE)
  ELSE IF e.ev = "metrics" /\ prevM # NoEv /\ mcall.kind # "none"
       THEN LET bad == BadKeys(prevM, e.m, mcall) IN
            IF bad = {} THEN {} ELSE {[prop |-> "C18", pred |-> "counters-change-by-exactly-what-happened",
                                       ctx |-> [keys |-> bad, err |-> mcall.err, ntx |-> IF mcall.ntx > 2 THEN 3 ELSE mcall.ntx]]}
  ELSE {}

IsKnown(v) == \E i \in 1..Len(Known) : LET k == Known[i] IN k.prop = v.prop /\ k.pred = v.pred

Next == /\ l <= Len(Trace)
        /\ LET nv == NewViol \ viol IN
           /\ viol' = viol \cup nv
           /\ (nv # {}) => PrintT(<<"VIOL", ToJson([at |-> l, script |-> Ev.script, sigs |-> nv,
                                                     unknown |-> {v \in nv : ~IsKnown(v)}])>>)
           /\ (\E v \in nv : ~IsKnown(v)) => TLCSet(2, TRUE)
        /\ TLCSet(1, l + 1)
        /\ l' = l + 1
        /\ Step
Spec == Init /\ [][Next]_vars

ASSUME TLCSet(1, 1) /\ TLCSet(2, FALSE)
\* every event was consumed, and no signature outside the known-findings list occurred
TraceAccepted == TLCGet(1) = Len(Trace) + 1
NoNewViolation == TLCGet(2) = FALSE
Post == /\ PrintT(<<"POST", ToJson([consumed |-> TLCGet(1) - 1, events |-> Len(Trace), newViolation |-> TLCGet(2)])>>)
        /\ TraceAccepted /\ NoNewViolation
=============================================================================
