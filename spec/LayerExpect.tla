---------------------------- MODULE LayerExpect ----------------------------
(* What the library's decoded struct must look like for a record of a
   LayerTables table: Layout!Project plus the few fields whose Go
   representation is not the wire value (identify state with its "supported"
   bit, IPv4-mapped address, millisecond period as a duration). *)
EXTENDS LayerTables

Without(f, S) == [k \in (DOMAIN f) \ S |-> f[k]]
\* ----------------------------------------------------- expected Go projections
ButtonsFalse == [n \in {"StandbyButtonDisableAllowed", "DiagnosticInterruptButtonDisableAllowed", "ResetButtonDisableAllowed",
                        "PowerOffButtonDisableAllowed", "StandbyButtonDisabled", "DiagnosticInterruptButtonDisabled",
                        "ResetButtonDisabled", "PowerOffButtonDisabled"} |-> FALSE]
LEval(b) == b[1] + 256 * b[2] + 65536 * b[3] + 16777216 * b[4]          \* only used when b[4] < 128
Expected(name, T, rec) ==
  LET p == Project(T, rec) IN
  CASE name \in {"GetChassisStatusRsp3", "GetChassisStatusRsp4"} ->
         (Without(p, {"identifySupported", "identifyState"})
          @@ [ChassisIdentifyState |-> IF rec["identifySupported"] THEN rec["identifyState"] ELSE 255])
         @@ (IF name = "GetChassisStatusRsp3" THEN ButtonsFalse ELSE <<>>)
    [] name = "GetSessionInfoRsp18" ->
         Without(p, {"protocol", "ip4"}) @@ [IsIPMIv2 |-> rec["protocol"] = 1, IP |-> Repeat(0, 10) \o <<255, 255>> \o rec["ip4"]]
    [] name = "GetPowerReadingRsp" ->
         Without(p, {"periodMs"}) @@ [Period |-> [s |-> LEval(rec["periodMs"]) \div 1000, ns |-> (LEval(rec["periodMs"]) % 1000) * 1000000]]
    [] OTHER -> p
GoLayer(name) == CASE name \in {"GetChassisStatusRsp3", "GetChassisStatusRsp4"} -> "GetChassisStatusRsp"
                   [] name = "SDRHeader" -> "SDR" [] name = "GetSessionInfoRsp18" -> "GetSessionInfoRsp" [] OTHER -> name
=============================================================================
