package main

// Generic, reflection-based projection of library structs to JSON-able values
// that TLC can read back (no number above 2^31-1, no nulls), and the inverse
// for populating request structs from TLC-generated arguments. No knowledge of
// any particular layer lives here.

import (
	"fmt"
	"reflect"
	"time"
)

var (
	durationType = reflect.TypeOf(time.Duration(0))
	timeType     = reflect.TypeOf(time.Time{})
)

func le32(u uint32) []int {
	return []int{int(u & 0xff), int(u >> 8 & 0xff), int(u >> 16 & 0xff), int(u >> 24 & 0xff)}
}

// project renders v with these rules: bool -> bool; string -> list of code
// points; (u)int8/16, int -> number; uint32 -> 4-byte little-endian list;
// time.Time -> 4-byte little-endian list of Unix seconds; time.Duration ->
// {s, ns}; byte arrays/slices -> list of numbers; other slices -> list;
// struct -> object of exported fields (embedded BaseLayer and interface/func
// fields skipped); pointer -> pointee or "nil".
func project(v reflect.Value) any {
	if !v.IsValid() {
		return "nil"
	}
	t := v.Type()
	if t == durationType {
		d := time.Duration(v.Int())
		return M{"s": int(d / time.Second), "ns": int(d % time.Second)}
	}
	if t == timeType {
		tm := v.Interface().(time.Time)
		u := tm.Unix()
		if u < 0 || u > 0xffffffff {
			// outside what four bytes can say: still a sequence of numbers (five of them), so that the comparison
			// with a specified four-byte value is simply unequal
			lo := le32(uint32(u))
			return []int{lo[0], lo[1], lo[2], lo[3], int((u >> 32) & 0xff)}
		}
		return le32(uint32(u))
	}
	switch v.Kind() {
	case reflect.Bool:
		return v.Bool()
	case reflect.String:
		out := []int{}
		for _, r := range v.String() {
			out = append(out, int(r))
		}
		return out
	case reflect.Uint8, reflect.Uint16:
		return int(v.Uint())
	case reflect.Uint32:
		return le32(uint32(v.Uint()))
	case reflect.Uint, reflect.Uint64:
		if v.Uint() > 0x7fffffff {
			return fmt.Sprint("u64:", v.Uint())
		}
		return int(v.Uint())
	case reflect.Int, reflect.Int8, reflect.Int16, reflect.Int32, reflect.Int64:
		if v.Int() > 0x7fffffff || v.Int() < -0x7fffffff {
			return fmt.Sprint("i64:", v.Int())
		}
		return int(v.Int())
	case reflect.Float32, reflect.Float64:
		return fmt.Sprintf("f:%.17g", v.Float())
	case reflect.Array, reflect.Slice:
		out := make([]any, 0, v.Len())
		for i := 0; i < v.Len(); i++ {
			out = append(out, project(v.Index(i)))
		}
		return out
	case reflect.Ptr:
		if v.IsNil() {
			return "nil"
		}
		return project(v.Elem())
	case reflect.Struct:
		out := M{}
		for i := 0; i < t.NumField(); i++ {
			f := t.Field(i)
			k := f.Type.Kind()
			if f.PkgPath != "" && !(f.Anonymous && k == reflect.Struct) { // unexported (embedded structs promote their exported fields)
				continue
			}
			if f.Name == "BaseLayer" {
				continue
			}
			if k == reflect.Interface || k == reflect.Func || k == reflect.Chan {
				continue
			}
			if f.Anonymous && k == reflect.Struct {
				// flatten embedded structs (e.g. Operation, PayloadDescriptor)
				if sub, ok := project(v.Field(i)).(M); ok {
					for kk, vv := range sub {
						out[kk] = vv
					}
				}
				continue
			}
			out[f.Name] = project(v.Field(i))
		}
		return out
	case reflect.Map:
		// maps are rendered as a list of {k, v} sorted by projected key text
		type kv struct {
			k string
			e M
		}
		var items []kv
		it := v.MapRange()
		for it.Next() {
			pk := project(it.Key())
			items = append(items, kv{fmt.Sprintf("%020v", pk), M{"k": pk, "v": project(it.Value())}})
		}
		for i := range items {
			for j := i + 1; j < len(items); j++ {
				if items[j].k < items[i].k {
					items[i], items[j] = items[j], items[i]
				}
			}
		}
		out := make([]any, 0, len(items))
		for _, it := range items {
			out = append(out, it.e)
		}
		return out
	}
	return fmt.Sprint("unprojectable:", t.String())
}

// populate fills dst (settable) from a decoded JSON value following the
// inverse rules. Unknown object keys are an error so that a typo in the
// specification cannot silently leave a field at its zero value.
func populate(dst reflect.Value, src any) error {
	t := dst.Type()
	if t == durationType {
		o, ok := src.(map[string]any)
		if !ok {
			return fmt.Errorf("duration wants {s,ns}, got %T", src)
		}
		dst.SetInt(int64(num(o["s"]))*int64(time.Second) + int64(num(o["ns"])))
		return nil
	}
	switch dst.Kind() {
	case reflect.Bool:
		b, ok := src.(bool)
		if !ok {
			return fmt.Errorf("bool wants bool, got %T", src)
		}
		dst.SetBool(b)
	case reflect.String:
		dst.SetString(string(ints(src)))
	case reflect.Uint8, reflect.Uint16, reflect.Uint, reflect.Uint64:
		f, ok := src.(float64)
		if !ok {
			return fmt.Errorf("%v wants number, got %T", t, src)
		}
		dst.SetUint(uint64(f))
	case reflect.Uint32:
		switch s := src.(type) {
		case float64:
			dst.SetUint(uint64(s))
		case []any:
			dst.SetUint(uint64(leInt(ints(s))))
		default:
			return fmt.Errorf("uint32 wants number or LE list, got %T", src)
		}
	case reflect.Int, reflect.Int8, reflect.Int16, reflect.Int32, reflect.Int64:
		f, ok := src.(float64)
		if !ok {
			return fmt.Errorf("%v wants number, got %T", t, src)
		}
		dst.SetInt(int64(f))
	case reflect.Slice:
		a, ok := src.([]any)
		if !ok {
			return fmt.Errorf("slice wants list, got %T", src)
		}
		s := reflect.MakeSlice(t, len(a), len(a))
		for i := range a {
			if err := populate(s.Index(i), a[i]); err != nil {
				return err
			}
		}
		dst.Set(s)
	case reflect.Array:
		a, ok := src.([]any)
		if !ok || len(a) != dst.Len() {
			return fmt.Errorf("array %v wants list of %d", t, dst.Len())
		}
		for i := range a {
			if err := populate(dst.Index(i), a[i]); err != nil {
				return err
			}
		}
	case reflect.Ptr:
		if dst.IsNil() {
			dst.Set(reflect.New(t.Elem()))
		}
		return populate(dst.Elem(), src)
	case reflect.Struct:
		o, ok := src.(map[string]any)
		if !ok {
			return fmt.Errorf("struct %v wants object, got %T", t, src)
		}
		for k, val := range o {
			f := dst.FieldByName(k)
			if !f.IsValid() || !f.CanSet() {
				return fmt.Errorf("struct %v has no settable field %q", t, k)
			}
			if err := populate(f, val); err != nil {
				return fmt.Errorf("%s: %w", k, err)
			}
		}
	default:
		return fmt.Errorf("cannot populate %v", t)
	}
	return nil
}
