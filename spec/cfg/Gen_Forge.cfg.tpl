SPECIFICATION Spec
CONSTANTS Seed = @SEED@  AuthNum = @AUTH@  IntegNum = @INTEG@  Tier = "@TIER@"
