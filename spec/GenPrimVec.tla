----------------------------- MODULE GenPrimVec -----------------------------
(* C20 (primitive conversions on their whole domains, reached through the
   exported API) and the Full Sensor Record vectors of C07. *)
EXTENDS Fsr, LayerTables, Json, FiniteSets

CONSTANTS Seed, Family, Tier
Full == Tier = "thorough"
Rnd(k, i) == ((k + 3) * 7919 + (i + 1) * 104729 + (Seed + 1) * 1299709 + (k * i) * 31) % 256

Func(id, name, cls, args, exp) == [id |-> id, prop |-> "C20", kind |-> "func", name |-> name, layer |-> name, class |-> cls, exp |-> exp] @@ args
\* ---- analog parsers: 3 formats x 256 raw bytes; format 3 has no parser
AnalogVecs == { Func("Analog/" \o ToString(f) \o "/" \o ToString(b), "AnalogParse", "format-" \o ToString(f), [format |-> f, raw |-> b],
                     [err |-> FALSE, value |-> Analog(f, b)]) : f \in 0..2, b \in 0..255 }
              \cup { Func("Analog/3/0", "AnalogParse", "format-3", [format |-> 3, raw |-> 0], [err |-> TRUE]) }
\* ---- entity instances
EntityVecs == { Func("Entity/" \o ToString(i), "EntityInstance", "instance", [v |-> i], [system |-> SystemRelative(i), device |-> DeviceRelative(i)]) : i \in 0..127 }
\* ---- ID strings through StringEncoding.Decoder
StrVec(id, enc, cls, vals, extra) ==
  LET s == [enc |-> enc, vals |-> vals] IN
  Func(id, "StringDecode", cls, [encoding |-> enc, bytes |-> IdBytes(s) \o extra, chars |-> Len(vals)],
       [err |-> FALSE, chars |-> IdChars(s), consumed |-> Len(IdBytes(s))])
BcdVecs == \* every nibble at both positions, every length 0..31
  { StrVec("Str/bcd/" \o ToString(n) \o "/" \o ToString(v), 1, "bcdplus-len-" \o ToString(n), [i \in 1..n |-> (v + i) % 16], <<>>) : n \in 0..31, v \in 0..15 }
  \cup { StrVec("Str/bcdx/" \o ToString(n), 1, "bcdplus-trailing", [i \in 1..n |-> (n + i) % 16], <<170, 187>>) : n \in 0..31 }
P6Vecs == \* every 6-bit code at every character position for every length (thorough), a diagonal otherwise
  LET pos(n) == IF Full THEN 1..n ELSE {p \in 1..n : (p + n + Seed) % 4 = 0} \cup {1, n} IN
  UNION { { StrVec("Str/p6/" \o ToString(n) \o "/" \o ToString(p) \o "/" \o ToString(c), 2, "packed6-len-" \o ToString(n),
                   [i \in 1..n |-> IF i = p THEN c ELSE (i * 7 + n) % 64], <<>>) : p \in pos(n) \cap (1..n), c \in 0..63 } : n \in 1..31 }
  \cup { StrVec("Str/p6/0", 2, "packed6-len-0", <<>>, <<>>) }
  \cup { StrVec("Str/p6x/" \o ToString(n), 2, "packed6-trailing", [i \in 1..n |-> (i * 5 + n) % 64], <<255, 255>>) : n \in 0..31 }
L1Vecs == \* every byte value, every length; a zero-length string is valid (43.15: length 0 = no data)
  { StrVec("Str/l1/" \o ToString(n) \o "/" \o ToString(v), 3, "latin1-len-" \o ToString(n), [i \in 1..n |-> (v * 8 + i) % 256], <<>>) : n \in {0} \cup (2..31), v \in 0..31 }
  \cup { StrVec("Str/l1b/" \o ToString(b), 3, "latin1-byte", <<65, b>>, <<>>) : b \in 0..255 }
  \cup { StrVec("Str/uni/" \o ToString(b), 0, "unicode-as-latin1", <<b, 66, 67>>, <<>>) : b \in {0, 65, 127, 128, 200, 255} }
\* too few bytes for the announced number of characters: an error
ShortStr == { Func("Str/short/" \o ToString(e) \o "/" \o ToString(n), "StringDecode", "short-" \o ToString(e),
                   [encoding |-> e, bytes |-> Take(IdBytes([enc |-> e, vals |-> [i \in 1..n |-> i % 16]]), Len(IdBytes([enc |-> e, vals |-> [i \in 1..n |-> i % 16]])) - 1), chars |-> n],
                   [err |-> TRUE]) : e \in 1..3, n \in 3..31 }
\* ---- BCD through Get Device ID (all 256 bytes) and the SDR header version
BcdByteVecs ==
  { LET d == Encode(GetDeviceIDRsp, Base(GetDeviceIDRsp, Seed)) IN
    [id |-> "BCD/devid/" \o ToString(b), prop |-> "C20", kind |-> "decode", layer |-> "GetDeviceIDRsp", class |-> "bcd-byte",
     bytes |-> [d EXCEPT ![4] = b], exp |-> [err |-> FALSE, value |-> [MinorFirmwareRevision |-> BCD(b)]]] : b \in 0..255 }
  \cup { [id |-> "BCD/sdr/" \o ToString(b), prop |-> "C20", kind |-> "decode", layer |-> "SDR", class |-> "bcd-reversed-byte",
          bytes |-> <<1, 0, b, 1, 20>>, exp |-> [err |-> FALSE, value |-> [Version |-> 10 * (b % 16) + (b \div 16)]]] : b \in {x \in 0..255 : x % 16 <= 9 /\ x \div 16 <= 9} }
\* ---- checksum through Message serialisation: every pair of header bytes, every single data byte
CksVecs ==
  LET ras == IF Full THEN 0..255 ELSE {0, 1, 32, 127, 128, 129, 254, 255} \cup {(Seed * 17 + i * 29) % 256 : i \in 1..8} IN
  { [id |-> "Cks/" \o ToString(ra) \o "/" \o ToString(fn) \o "/" \o ToString(lun), prop |-> "C20", kind |-> "serialize", layer |-> "Message", class |-> "checksum1",
     fields |-> [RemoteAddress |-> ra, Function |-> fn, RemoteLUN |-> lun, LocalAddress |-> 129, Sequence |-> 1, LocalLUN |-> 0, Command |-> 1],
     payload |-> <<>>,
     exp |-> [err |-> FALSE, bytes |-> <<ra, fn * 4 + lun, Checksum(<<ra, fn * 4 + lun>>), 129, 4, 1>> \o (IF fn \in {44} THEN <<0>> ELSE IF fn = 46 THEN <<0, 0, 0>> ELSE <<>>)
                                        \o <<Checksum(<<129, 4, 1>>)>>]]
     : ra \in ras, fn \in {f \in 0..63 : f % 2 = 0}, lun \in 0..3 }
  \cup { [id |-> "Cks2/" \o ToString(a) \o "/" \o ToString(b), prop |-> "C20", kind |-> "serialize", layer |-> "Message", class |-> "checksum2",
          fields |-> [RemoteAddress |-> 32, Function |-> 6, RemoteLUN |-> 0, LocalAddress |-> a, Sequence |-> 0, LocalLUN |-> 0, Command |-> b],
          payload |-> <<a, b, (a + b) % 256>>,
          exp |-> [err |-> FALSE, bytes |-> <<32, 24, 200, a, 0, b, a, b, (a + b) % 256, Checksum(<<a, 0, b, a, b, (a + b) % 256>>)>>]]
          : a \in ras, b \in 0..255 }
  \* long payloads of large byte values (sums that overflow a byte many times over, in every alignment): serialised
  \* and, as a response with a correct checksum, decoded
  \cup { LET pl == [i \in 1..n |-> <<255, 192, 128, 127, 254, 1>>[1 + ((i * f + f) % 6)]] IN
         [id |-> "CksLong/" \o ToString(n) \o "/" \o ToString(f), prop |-> "C20", kind |-> "serialize", layer |-> "Message", class |-> "checksum2-long",
          fields |-> [RemoteAddress |-> 32, Function |-> 10, RemoteLUN |-> 0, LocalAddress |-> 129, Sequence |-> 1, LocalLUN |-> 0, Command |-> 35],
          payload |-> pl,
          exp |-> [err |-> FALSE, bytes |-> <<32, 40, 184, 129, 4, 35>> \o pl \o <<Checksum(<<129, 4, 35>> \o pl)>>]]
         : n \in {13, 14, 15, 16, 17, 23, 24, 25, 31, 32, 33, 40, 63, 64, 65, 100, 200}, f \in {1, 2, 3, 5, 7} }
\* ---- DCMI rolling average: byte -> duration through the capabilities response (all 256), duration -> byte through Get Power Reading
RollVecs ==
  { [id |-> "Roll/dec/" \o ToString(b), prop |-> "C20", kind |-> "decode", layer |-> "DCMICapsEnhancedSystemPowerStatisticsAttrsRsp", class |-> "period-byte",
     bytes |-> <<1, 5, 2, 2, b, 60>>,
     exp |-> [err |-> FALSE, value |-> [PowerRollingAvgTimePeriods |-> << [s |-> RollingSeconds(b), ns |-> 0], [s |-> 60, ns |-> 0] >>]]] : b \in 0..255 }
  \cup { [id |-> "Roll/ser/" \o ToString(s), prop |-> "C20", kind |-> "serialize", layer |-> "GetPowerReadingReq", class |-> "duration",
          fields |-> [Mode |-> 2, Period |-> [s |-> s, ns |-> 0]], payload |-> <<>>, exp |-> [err |-> FALSE, bytes |-> <<2, RollingByte(s), 0>>]]
          : s \in (0..130) \cup {u * c + d : u \in {60, 3600, 86400}, c \in 1..64, d \in {-2, -1, 0, 1, 2, 29, 30, 31}} \cup {5529600, 5529599, 5443200, 6000000}
                  \cup (IF Full THEN {x * 97 + Seed : x \in 0..57000} ELSE {x * 9973 + Seed : x \in 0..554}) }
  \cup { [id |-> "Roll/normal/" \o ToString(s), prop |-> "C20", kind |-> "serialize", layer |-> "GetPowerReadingReq", class |-> "normal-mode-ignores-period",
          fields |-> [Mode |-> 1, Period |-> [s |-> s, ns |-> 0]], payload |-> <<>>, exp |-> [err |-> FALSE, bytes |-> <<1, 0, 0>>]] : s \in {0, 5, 3600} }

\* ------------------------------------------------------ Full Sensor Record (43.1)
FsrVec(id, cls, prop, r) == [id |-> id, prop |-> prop, kind |-> "decode", layer |-> "FullSensorRecord", class |-> cls,
                             bytes |-> FsrEnc(r), exp |-> [err |-> FALSE, value |-> FsrExpected(r)]]
B0 == FsrBase(Seed + 1)
FsrTwos ==   \* two's complement of every width used on the wire: all 1 024 values of M, B, accuracy; all 16 x 16 exponent pairs
  { FsrVec("FSR/M/" \o ToString(v), "M-10bit", "C20", [B0 EXCEPT !.M = v]) : v \in -512..511 }
  \cup { FsrVec("FSR/B/" \o ToString(v), "B-10bit", "C20", [B0 EXCEPT !.B = v]) : v \in -512..511 }
  \cup { FsrVec("FSR/Acc/" \o ToString(v), "accuracy-10bit", "C20", [B0 EXCEPT !.Accuracy = v]) : v \in -512..511 }
  \cup { FsrVec("FSR/Exp/" \o ToString(a) \o "/" \o ToString(b), "exponents-4bit", "C20", [B0 EXCEPT !.RExp = a, !.BExp = b]) : a \in -8..7, b \in -8..7 }
ByteFields == {"OwnerAddress", "Number", "Entity", "SensorType", "OutputType", "BaseUnit", "ModifierUnit", "NominalReading", "NormalMax", "NormalMin", "SensorMax", "SensorMin"}
FsrFields ==
  UNION { { FsrVec("FSR/" \o f \o "/" \o ToString(v), "field-" \o f, "C07", [B0 EXCEPT ![f] = v]) : v \in 0..255 } : f \in ByteFields }
  \cup { FsrVec("FSR/flags/" \o ToString(v), "flag-bits", "C07",
                [B0 EXCEPT !.IsContainerEntity = (v % 2) = 1, !.Ignore = ((v \div 2) % 2) = 1, !.IsPercentage = ((v \div 4) % 2) = 1,
                           !.NormalMinSpecified = ((v \div 8) % 2) = 1, !.NormalMaxSpecified = ((v \div 16) % 2) = 1, !.NominalReadingSpecified = ((v \div 32) % 2) = 1]) : v \in 0..63 }
  \cup { FsrVec("FSR/units/" \o ToString(a) \o "-" \o ToString(r) \o "-" \o ToString(mu), "sensor-units-1", "C07", [B0 EXCEPT !.AnalogDataFormat = a, !.RateUnit = r, !.modUse = mu])
           : a \in 0..3, r \in 0..7, mu \in 0..3 }
  \cup { FsrVec("FSR/lin/" \o ToString(v), "linearisation", "C07", [B0 EXCEPT !.Linearisation = v]) : v \in 0..127 }
  \cup { FsrVec("FSR/chan/" \o ToString(c) \o "-" \o ToString(lu), "channel-lun", "C07", [B0 EXCEPT !.Channel = c, !.OwnerLUN = lu]) : c \in 0..15, lu \in 0..3 }
  \cup { FsrVec("FSR/inst/" \o ToString(v), "instance", "C07", [B0 EXCEPT !.Instance = v]) : v \in 0..127 }
  \cup { FsrVec("FSR/tol/" \o ToString(t) \o "-" \o ToString(e) \o "-" \o ToString(d), "tolerance-accexp-direction", "C07", [B0 EXCEPT !.Tolerance = t, !.AccuracyExp = e, !.Direction = d])
           : t \in 0..63, e \in 0..3, d \in 0..3 }
\* every ID-string encoding for every length from zero upward
IdOf(enc, n) == [enc |-> enc, vals |-> [i \in 1..n |-> CASE enc = 1 -> (i * 3 + n) % 16 [] enc = 2 -> (i * 5 + n) % 64 [] OTHER -> 33 + ((i * 7 + n) % 90)]]
\* reserved bits, one group at a time and all together, with ID strings of every encoding: the decoded record is unchanged
FsrReserved(prop) ==
  { FsrVec("FSR/res/" \o prop \o "/" \o ToString(rs) \o "/" \o ToString(e) \o "-" \o ToString(n), "reserved-bits", prop, [B0 EXCEPT !.res = rs, !.id = IdOf(e, n)])
    : rs \in { [NoRes EXCEPT !.lun = 1], [NoRes EXCEPT !.lun = 2], [NoRes EXCEPT !.lin = 1], [NoRes EXCEPT !.flags = 1], [NoRes EXCEPT !.flags = 16],
               [NoRes EXCEPT !.tl = 1], AllRes },
      e \in 0..3, n \in {0, 2, 9, 31} }
FsrIds ==
  { FsrVec("FSR/id/l1/" \o ToString(n), "id-latin1-len-" \o ToString(n), "C07", [B0 EXCEPT !.id = [enc |-> 3, vals |-> [i \in 1..n |-> 32 + ((i * 7 + n) % 95)]]]) : n \in {0} \cup (2..31) }
  \cup { FsrVec("FSR/id/uni/" \o ToString(n), "id-unicode-len-" \o ToString(n), "C07", [B0 EXCEPT !.id = [enc |-> 0, vals |-> [i \in 1..n |-> 32 + ((i * 11 + n) % 95)]]]) : n \in {0} \cup (2..31) }
  \cup { FsrVec("FSR/id/bcd/" \o ToString(n), "id-bcdplus-len-" \o ToString(n), "C07", [B0 EXCEPT !.id = [enc |-> 1, vals |-> [i \in 1..n |-> (i * 3 + n) % 16]]]) : n \in 0..31 }
  \cup { FsrVec("FSR/id/p6/" \o ToString(n), "id-packed6-len-" \o ToString(n), "C07", [B0 EXCEPT !.id = [enc |-> 2, vals |-> [i \in 1..n |-> (i * 5 + n) % 64]]]) : n \in 0..31 }
  \cup { FsrVec("FSR/id/l1hi/" \o ToString(b), "id-latin1-high-bytes", "C20", [B0 EXCEPT !.id = [enc |-> 3, vals |-> <<65, b, 66>>]]) : b \in 128..255 }
\* ID strings decoded into a record value that already held another ID string (every encoding to every encoding,
\* longer to shorter, non-empty to empty): the characters must be those of the later record alone
FsrIdAfter ==
  { LET ra == [FsrBase(Seed + 2) EXCEPT !.id = IdOf(ea, na)]
        rb == [B0 EXCEPT !.id = IdOf(eb, nb)] IN
    [id |-> "FSR/id-after/" \o ToString(ea) \o "-" \o ToString(na) \o "/" \o ToString(eb) \o "-" \o ToString(nb), prop |-> "C20", kind |-> "reuse",
     layer |-> "FullSensorRecord", class |-> "id-after-" \o ToString(ea) \o "-to-" \o ToString(eb),
     first |-> FsrEnc(ra), second |-> FsrEnc(rb), exp |-> [err |-> FALSE, value |-> FsrExpected(rb)]]
    \* (a one-character 8-bit or unicode string is reserved by the specification: 43.15)
    : ea \in 0..3, na \in {0, 2, 16, 31}, eb \in 0..3, nb \in {0, 2, 5, 31} }
FsrShort == { [id |-> "FSR/short/" \o ToString(n), prop |-> "C07", kind |-> "decode", layer |-> "FullSensorRecord", class |-> "short",
               bytes |-> Take(FsrEnc(B0), n), exp |-> [err |-> TRUE]] : n \in 0..42 }
            \cup { [id |-> "FSR/shortid/" \o ToString(n), prop |-> "C07", kind |-> "decode", layer |-> "FullSensorRecord", class |-> "id-string-cut",
                    bytes |-> Take(FsrEnc(B0), 43 + n), exp |-> [err |-> TRUE]] : n \in 0..(Len(B0.id.vals) - 1) }

Vectors == CASE Family = "prims" -> AnalogVecs \cup EntityVecs \cup BcdVecs \cup P6Vecs \cup L1Vecs \cup ShortStr \cup BcdByteVecs \cup RollVecs
             [] Family = "checksum" -> CksVecs
             [] Family = "fsrtwos" -> FsrTwos
             [] Family = "fsr" -> FsrFields \cup FsrIds \cup FsrShort \cup FsrIdAfter \cup FsrReserved("C07") \cup FsrReserved("C20")
ASSUME \A v \in Vectors : PrintT(<<"SCRIPT", ToJson(v)>>)
ASSUME PrintT(<<"COUNT", ToJson([n |-> Cardinality(Vectors)])>>)
=============================================================================
