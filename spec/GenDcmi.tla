------------------------------- MODULE GenDcmi -------------------------------
(* Scenarios for C16 (b): dcmi.GetSensorInfo against a rule-driven in-session
   BMC built from the DcmiPaging device model: per entity a list of record IDs,
   a page size 1..8, and optionally an error for the IPMI entity IDs. *)
EXTENDS Crypto, Json, FiniteSets, TLC

CONSTANTS Seed, Family, Tier
Full == Tier = "thorough"
S == [authAlg |-> "sha1", integAlg |-> "sha1", authNum |-> 1, integNum |-> 1, confNum |-> 1, icvLen |-> 12, integLen |-> 12,
      uname |-> <<97>>, pw |-> <<98, 99>>, kg |-> <<>>, priv |-> 4, lookup |-> TRUE, bmcSid |-> <<7, 7, 7, 3>>,
      rc |-> [i \in 1..16 |-> (i * 5) % 256], guid |-> [i \in 1..16 |-> (90 + i) % 256]]
Rnd(k, i) == ((k + 3) * 7919 + (i + 1) * 104729 + (Seed + 1) * 1299709 + (k * i) * 31) % 65536

\* entity IDs: IPMI air inlet 37h, processor 03h, system board 07h; DCMI 40h, 41h, 42h
Ipmi == <<55, 3, 7>>   Dcmi == <<64, 65, 66>>
Ids(k, e, n) == [i \in 1..n |-> (Rnd(k + e, i) + i * 7) % 65535]
HexD == <<"0", "1", "2", "3", "4", "5", "6", "7", "8", "9", "a", "b", "c", "d", "e", "f">>
Hex2(b) == HexD[(b \div 16) + 1] \o HexD[(b % 16) + 1]
Plain == Ref("ReqPlainT")
\* request: [5] command 07h, [6] DCh, [7] sensor type, [8] entity ID, [9] instance, [10] instance start
IsSensorInfo == And(<< Eq(Slice(Plain, 1, 2), B(<<176>>)), Eq(Slice(Plain, 5, 7), B(<<7, 220>>)) >>)
PageBody(ids, s, p) == LET n == Len(ids)  hi == IF s + p - 1 < n THEN s + p - 1 ELSE n  cnt == IF hi >= s THEN hi - s + 1 ELSE 0 IN
                       <<220, n, cnt>> \o Flatten([i \in 1..cnt |-> LE16(ids[s + i - 1])])
Msg(body) == DynMsgRsp(45, 7, 0, B(body))
ErrMsg(cc) == DynMsgRsp(45, 7, cc, B(<<220>>))
\* one table entry per (entity, instance start) that a complete walk can ask for, plus every other start up to the count
\* page size 0 = a BMC that returns a different number of record IDs (1..8) on every page, which the protocol allows
PageAt(p, s) == IF p = 0 THEN <<8, 3, 8, 1, 5, 2, 7, 4>>[(s % 8) + 1] ELSE p
MaxStart(j, lists) == IF Len(lists[j].ids) + 1 > 255 THEN 255 ELSE Len(lists[j].ids) + 1
Table(lists, p) ==
  [kk \in UNION { { Hex2(lists[j].e) \o Hex2(s) : s \in 1..MaxStart(j, lists) } : j \in 1..Len(lists) } |->
     LET j == CHOOSE x \in 1..Len(lists) : \E s \in 1..MaxStart(x, lists) : kk = Hex2(lists[x].e) \o Hex2(s)
         s == CHOOSE y \in 1..MaxStart(j, lists) : kk = Hex2(lists[j].e) \o Hex2(y)
     IN IF lists[j].err THEN ErrMsg(204) ELSE Msg(PageBody(lists[j].ids, s, PageAt(p, s)))]
Rules(lists, p) ==
  << [rule |-> "sensor-info", when |-> <<IsSensorInfo>>,
      datagrams |-> << Dg(DynSessPacket(S, <<1, 0, 0, 0>>,
                                        [op |-> "lookup", key |-> Cat(<< Slice(Plain, 8, 9), Slice(Plain, 10, 11) >>), table |-> Table(lists, p),
                                         default |-> Msg(<<220, 0, 0>>)], [i \in 1..16 |-> i]), [kind |-> "page"]) >>] >>
\* counts: per family per entity; ipmiErr: the BMC rejects IPMI entity IDs with CCh
\* errAt: 0 = no error, 4 = every IPMI entity ID is refused, 1..3 = only that one (the ones before it are answered)
ScenarioE(id, k, ci, cd, errAt, p) ==
  LET ipmiErr == errAt > 0
      lists == [j \in 1..6 |-> IF j <= 3 THEN [e |-> Ipmi[j], ids |-> Ids(k, j, ci[j]), err |-> (errAt = 4 \/ errAt = j)]
                                         ELSE [e |-> Dcmi[j - 3], ids |-> Ids(k, j, cd[j - 3]), err |-> FALSE]]
      useDcmi == ipmiErr \/ (ci[1] + ci[2] + ci[3] = 0)
      pick(j) == IF useDcmi THEN lists[j + 3].ids ELSE lists[j].ids
      pages(n) == IF p = 0 THEN n + 2 ELSE (n \div p) + 2
  IN [id |-> id, prefix |-> "hs",
      info |-> [family |-> "dcmi-paging", insess |-> TRUE, integLen |-> S.integLen, bmcSid |-> S.bmcSid, page |-> p, ipmi |-> ci, dcmi |-> cd, ipmiErr |-> ipmiErr],
      steps |-> << [k |-> "rules", rules |-> Rules(lists, p)],
                   [k |-> "call", api |-> "DcmiGetSensorInfo", label |-> "sensorinfo", target |-> "sess", ctx |-> [ms |-> 20000],
                    exp |-> [prop |-> "C16", outcome |-> "value", value |-> [Inlet |-> pick(1), CPU |-> pick(2), Baseboard |-> pick(3)],
                             maxreqs |-> pages(ci[1]) + pages(ci[2]) + pages(ci[3]) + pages(cd[1]) + pages(cd[2]) + pages(cd[3])]] >>]
Scenario(id, k, ci, cd, ipmiErr, p) == ScenarioE(id, k, ci, cd, IF ipmiErr THEN 4 ELSE 0, p)
\* a BMC whose responses carry more record IDs than its instance count says, on every page, for ever: the enumeration
\* must still end (C05); and faults of the fall-back queries after the standard IDs gave nothing: an error, never
\* success without a result (C13)
Odd(id, prop, ipmiBody, dcmiDgs, exp) ==
  [id |-> id, prefix |-> "hs", info |-> [family |-> "dcmi-odd", insess |-> TRUE, integLen |-> S.integLen, bmcSid |-> S.bmcSid, page |-> 0, ipmi |-> <<0, 0, 0>>, dcmi |-> <<0, 0, 0>>, ipmiErr |-> FALSE],
   steps |-> << [k |-> "rules", rules |-> <<
                   [rule |-> "dcmi-ids", when |-> <<IsSensorInfo, Eq(Slice(Plain, 8, 9), B(<<64>>))>>, datagrams |-> dcmiDgs],
                   [rule |-> "dcmi-ids", when |-> <<IsSensorInfo, Eq(Slice(Plain, 8, 9), B(<<65>>))>>, datagrams |-> dcmiDgs],
                   [rule |-> "dcmi-ids", when |-> <<IsSensorInfo, Eq(Slice(Plain, 8, 9), B(<<66>>))>>, datagrams |-> dcmiDgs],
                   [rule |-> "ipmi-ids", when |-> <<IsSensorInfo>>, datagrams |-> << Dg(DynSessPacket(S, <<1, 0, 0, 0>>, Msg(ipmiBody), [i \in 1..16 |-> i]), [kind |-> "page"]) >>] >>],
                [k |-> "call", api |-> "DcmiGetSensorInfo", label |-> "sensorinfo", target |-> "sess", ctx |-> [ms |-> 3000], exp |-> [prop |-> prop] @@ exp] >>]
OddSet ==
  { Odd("over-" \o ToString(t), "C05", <<220, t, 2, 16, 0, 17, 0>>, << Dg(DynSessPacket(S, <<1, 0, 0, 0>>, Msg(<<220, t, 2, 16, 0, 17, 0>>), [i \in 1..16 |-> i]), [kind |-> "page"]) >>,
        [outcome |-> "any", maxreqs |-> 3 * 130]) : t \in {0, 1, 3, 255} }
  \cup { Odd("fb-lost", "C13", <<220, 0, 0>>, <<>>, [outcome |-> "error", value |-> <<>>]),
         Odd("fb-refused", "C13", <<220, 0, 0>>, << Dg(DynSessPacket(S, <<1, 0, 0, 0>>, ErrMsg(193), [i \in 1..16 |-> i]), [kind |-> "page"]) >>, [outcome |-> "error", value |-> <<>>]) }
Counts == IF Full THEN 0..255 ELSE {0, 1, 2, 3, 7, 8, 9, 15, 16, 17, 24, 25, 64, 254, 255}
Pages == IF Full THEN 1..8 ELSE {1, 3, 8, 1 + (Seed % 8)}
Scripts ==
  { sc \in { Scenario("g-" \o ToString(n) \o "-" \o ToString(p) \o "-" \o ToString(v), n * 8 + p, <<IF v = 0 THEN n ELSE 0, IF v = 1 THEN n ELSE (n % 3), IF v = 2 THEN n ELSE 1>>,
             <<2, 0, 1>>, FALSE, p) : n \in Counts, p \in Pages, v \in 0..2 } : Full \/ (sc.info.page + sc.info.ipmi[1] + sc.info.ipmi[2]) % 3 # 1 }
  \* fallback: nothing under the IPMI IDs, or an error for them
  \cup { Scenario("fb-" \o ToString(n) \o "-" \o ToString(p) \o (IF er THEN "E" ELSE "Z"), 900 + n * 8 + p, IF er THEN <<3, 1, 2>> ELSE <<0, 0, 0>>, <<n, n % 5, (n * 3) % 11>>, er, p)
           : n \in (Counts \cap 0..64), p \in Pages, er \in BOOLEAN }
  \cup { Scenario("none-" \o ToString(p), 77, <<0, 0, 0>>, <<0, 0, 0>>, FALSE, p) : p \in Pages }
  \* an error for a later standard entity after earlier ones produced record IDs: still "an error", so the DCMI IDs are used
  \cup { ScenarioE("perr-" \o ToString(e) \o "-" \o ToString(p), 700 + e, <<11, 2, 4>>, <<3, 1, 9>>, e, p) : e \in 1..3, p \in {1, 3, 8, 0} }
  \cup { Scenario("var-" \o ToString(n) \o "-" \o ToString(v), 500 + n, <<IF v = 0 THEN n ELSE 2, IF v = 1 THEN n ELSE 5, IF v = 2 THEN n ELSE 11>>, <<2, 0, 1>>, FALSE, 0)
           : n \in (IF Full THEN 0..255 ELSE {0, 1, 7, 8, 9, 12, 20, 30, 64, 129, 255}), v \in 0..2 }
  \cup { Scenario("varfb-" \o ToString(n), 600 + n, <<0, 0, 0>>, <<n, 9, 20>>, FALSE, 0) : n \in {1, 8, 20, 30} }
\* two enumerations on one session with the BMC answering differently in between (the standard entity IDs refused or empty
\* at first and answered later, and the reverse): each result is decided by what that enumeration was told
Twice(id, x, y) == [x EXCEPT !.id = id, !.steps = x.steps \o y.steps]
TwiceSet ==
  UNION { LET refused == ScenarioE("x", 800 + p, <<3, 1, 2>>, <<4, 2, 5>>, 4, p)
              empty == ScenarioE("x", 810 + p, <<0, 0, 0>>, <<4, 2, 5>>, 0, p)
              one == ScenarioE("x", 820 + p, <<3, 1, 2>>, <<4, 2, 5>>, 2, p)
              answered == ScenarioE("x", 830 + p, <<3, 1, 2>>, <<4, 2, 5>>, 0, p) IN
          { Twice("twice-refused-answered-" \o ToString(p), refused, answered), Twice("twice-empty-answered-" \o ToString(p), empty, answered),
            Twice("twice-one-answered-" \o ToString(p), one, answered), Twice("twice-answered-refused-" \o ToString(p), answered, refused),
            Twice("twice-answered-empty-" \o ToString(p), answered, empty) } : p \in {1, 3, 0} }
AllScripts == Scripts \cup TwiceSet
Chosen == IF Family = "odd" THEN OddSet ELSE AllScripts
Header == [header |-> TRUE, family |-> "dcmi", defs |-> SessionDefs(S) @@ [ReqPlainT |-> ReqPlain(S)], stable |-> <<"SIK", "K1", "K2">>,
           session |-> SessionRecipes(S), prefixes |-> [hs |-> HandshakeSteps(S)]]
ASSUME PrintT(<<"HEADER", ToJson(Header)>>)
ASSUME \A s \in Chosen : PrintT(<<"SCRIPT", ToJson(s)>>)
ASSUME PrintT(<<"COUNT", ToJson([n |-> Cardinality(Chosen)])>>)
=============================================================================
