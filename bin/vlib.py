"""Shared helpers for the /verif checks: running TLC, unwrapping TLC-printed
JSON, building and running the Go harness, writing evidence."""
import json, os, subprocess, sys, time, shutil, hashlib, re, tempfile

VERIF = os.path.dirname(os.path.dirname(os.path.abspath(__file__)))
SPEC = os.path.join(VERIF, "spec")
HARNESS = os.path.join(VERIF, "harness")
REPO = os.environ.get("VERIF_REPO", "/repo")
JAR = "/opt/veriftools/tla/tla2tools.jar:/opt/veriftools/tla/CommunityModules-deps.jar"
GOENV = dict(os.environ, GOFLAGS="-mod=mod", GOPROXY="off", GOSUMDB="off", GOTOOLCHAIN="local")


import itertools
_ctr = itertools.count()


class Inconclusive(Exception):
    pass


def workroot():
    d = os.environ.get("VERIF_WORK") or os.path.join(VERIF, "work")
    os.makedirs(d, exist_ok=True)
    return d


def mkwork(name):
    d = os.path.join(workroot(), "%s-%d" % (name, os.getpid()))
    shutil.rmtree(d, ignore_errors=True)
    os.makedirs(d)
    return d


def tlc(module, cfg, work, workers=1, heap="4g", timeout=1800, extra=(), out=None, stack=None, props=()):
    """Run TLC on spec/<module>.tla with config file `cfg` (path). Returns (rc, output path)."""
    meta = os.path.join(work, "meta-" + os.path.basename(cfg))
    tmp = os.path.join(work, "jtmp-" + os.path.basename(cfg) + "-%d" % next(_ctr))
    os.makedirs(tmp, exist_ok=True)
    out = out or os.path.join(work, os.path.basename(cfg) + ".out")
    cmd = ["java", "-Xmx" + heap, "-XX:+UseParallelGC", "-Djava.io.tmpdir=" + tmp]
    if stack:
        cmd.append("-Xss" + stack)
    cmd += list(props)
    cmd += ["-cp", JAR, "tlc2.TLC", "-workers", str(workers), "-metadir", meta, "-noGenerateSpecTE",
            "-config", cfg] + list(extra) + [module + ".tla"]
    with open(out, "w") as f:
        try:
            p = subprocess.run(cmd, cwd=SPEC, stdout=f, stderr=subprocess.STDOUT, timeout=timeout)
            rc = p.returncode
        except subprocess.TimeoutExpired:
            rc = 124
    shutil.rmtree(meta, ignore_errors=True)
    shutil.rmtree(tmp, ignore_errors=True)
    return rc, out


def tlc_stats(outpath):
    """Parse 'N states generated, M distinct states found' and the error summary."""
    st = {"generated": 0, "distinct": 0, "ok": False, "errors": []}
    with open(outpath, errors="replace") as f:
        for line in f:
            mm = re.match(r"(\d+) states generated, (\d+) distinct states found", line)
            if mm:
                st["generated"], st["distinct"] = int(mm.group(1)), int(mm.group(2))
            if line.startswith("Model checking completed. No error has been found."):
                st["ok"] = True
            if line.startswith("Error:") or "is violated" in line:
                st["errors"].append(line.strip())
    return st


def unwrap(outpath, dest, tags=("SCRIPT",), header_tag="HEADER", dedupe=True):
    """TLC prints <<"TAG", "json">> lines; turn them into ndjson (header first). Returns count."""
    hdr = None
    seen = set()
    n = 0
    with open(outpath, errors="replace") as f, open(dest + ".body", "w") as o:
        for line in f:
            if not line.startswith('<<"'):
                continue
            tag = line[3:line.index('"', 3)]
            body = line[len('<<"' + tag + '", '):].rstrip()
            if not body.endswith(">>"):
                continue
            body = body[:-2]
            try:
                s = json.loads(body)
            except Exception:
                continue
            if tag == header_tag:
                hdr = s
            elif tag in tags:
                if dedupe:
                    h = hashlib.md5(s.encode()).digest()
                    if h in seen:
                        continue
                    seen.add(h)
                o.write(s + "\n")
                n += 1
    with open(dest, "w") as o:
        if hdr is not None:
            o.write(hdr + "\n")
        with open(dest + ".body") as b:
            shutil.copyfileobj(b, o)
    os.unlink(dest + ".body")
    return n


def printed(outpath, tag):
    """All JSON values TLC printed under <<"tag", "json">>, deduplicated, parsed."""
    res, seen = [], set()
    with open(outpath, errors="replace") as f:
        for line in f:
            pre = '<<"%s", ' % tag
            if line.startswith(pre):
                body = line[len(pre):].rstrip()
                if body.endswith(">>"):
                    try:
                        s = json.loads(body[:-2])
                    except Exception:
                        continue
                    if s not in seen:
                        seen.add(s)
                        try:
                            res.append(json.loads(s))
                        except Exception:
                            res.append(s)
    return res


_built = {}
_build_lock = __import__("threading").Lock()


def build_harness(race=False):
    """Build the harness against the *current* /repo working tree with the verif tag."""
    with _build_lock:
        return _build_harness(race)


def _build_harness(race=False):
    key = "race" if race else "plain"
    if key in _built:
        return _built[key]
    # the module's replace directive points at /repo; keep go.sum in step with the repository's
    try:
        src, dst = os.path.join(REPO, "go.sum"), os.path.join(HARNESS, "go.sum")
        if not os.path.exists(dst) or open(src, "rb").read() != open(dst, "rb").read():
            tmp = dst + ".tmp%d" % os.getpid()
            shutil.copyfile(src, tmp)
            os.replace(tmp, dst)
    except OSError:
        pass
    out = os.path.join(workroot(), "bmcreplay" + ("-race" if race else "") + "-%d" % os.getpid())
    cmd = ["go", "build", "-tags", "verif", "-o", out]
    if REPO != "/repo":
        # seeded-change testing: build against a scratch worktree without touching /repo
        alt = os.path.join(workroot(), "alt-%d.mod" % os.getpid())
        txt = open(os.path.join(HARNESS, "go.mod")).read().replace("=> /repo", "=> " + REPO)
        open(alt, "w").write(txt)
        shutil.copyfile(os.path.join(REPO, "go.sum"), alt[:-4] + ".sum")
        cmd.append("-modfile=" + alt)
    if race:
        cmd.insert(2, "-race")
    if os.environ.get("VERIF_COVER"):
        # coverage of the library reached by the conformance runs (diagnostic only: bin/cover)
        cmd[2:2] = ["-cover", "-covermode=atomic", "-coverpkg=verif/harness,github.com/gebn/bmc/..."]
    cmd.append(".")
    p = subprocess.run(cmd, cwd=HARNESS, env=GOENV, stdout=subprocess.PIPE, stderr=subprocess.STDOUT, text=True)
    if p.returncode != 0:
        raise Inconclusive("harness build failed against the current /repo tree:\n" + p.stdout)
    _built[key] = out
    return out


def harness(args, race=False, timeout=1800, env=None):
    exe = build_harness(race)
    p = subprocess.run([exe] + list(args), stdout=subprocess.PIPE, stderr=subprocess.PIPE, text=True,
                       timeout=timeout, env=env or GOENV)
    return p


def cleanup_built():
    for v in _built.values():
        try:
            os.unlink(v)
        except OSError:
            pass


def write_cfg(template, dest, **subst):
    s = open(os.path.join(SPEC, "cfg", template)).read()
    for k, v in subst.items():
        s = s.replace("@%s@" % k, str(v))
    if "@" in re.sub(r"\\\*.*", "", s):
        left = re.findall(r"@[A-Z_]+@", s)
        if left:
            raise Inconclusive("unsubstituted cfg placeholders: %s" % left)
    with open(dest, "w") as f:
        f.write(s)
    return dest


def load_known():
    p = os.path.join(VERIF, "known_findings.json")
    if not os.path.exists(p):
        return {"findings": [], "fixed": []}
    return json.load(open(p))


def write_evidence(pid, tier, seed, level, coverage, wall, violations, assumptions):
    if os.environ.get("VERIF_NO_EVIDENCE"):
        return
    os.makedirs(os.path.join(VERIF, "evidence"), exist_ok=True)
    ev = {"property_id": pid, "tier": tier, "seed": int(seed), "level": level, "coverage": coverage,
          "assumptions": assumptions, "wall_s": round(wall, 2), "violations": int(violations)}
    tmp = os.path.join(VERIF, "evidence", pid + ".json.tmp")
    with open(tmp, "w") as f:
        json.dump(ev, f, indent=1, sort_keys=True)
    os.replace(tmp, os.path.join(VERIF, "evidence", pid + ".json"))
