---------------------------- MODULE CipherSelect ----------------------------
(* Cipher-suite discovery and selection (cipher_suites.go:
   RetrieveSupportedCipherSuites, parseCipherSuiteRecordData;
   v2session_new.go: determineCipherSuite).

   Pure part: the Cipher Suite Record format of IPMI v2.0 22.15.1 / table 22-19
   (encoder RecBytes, declarative expansion Expand) and the selection function.
   State machine: the BMC holds the concatenated record data and serves it in
   16-byte chunks by list index; the console concatenates chunks until a short
   one or the last index the 6-bit list index field can express (3Fh), then
   parses.  Properties C16 (a) and C12 (selection). *)
EXTENDS Integers, Sequences, FiniteSets, TLC

\* ------------------------------------------------------------------- records
\* r = [oem, id, en (3 bytes, LS first), auth, integs (seq), confs (seq)]
RECURSIVE FlattenSeq(_)
FlattenSeq(ss) == IF ss = <<>> THEN <<>> ELSE Head(ss) \o FlattenSeq(Tail(ss))
RecBytes(r) == (IF r.oem THEN <<193, r.id>> \o r.en ELSE <<192, r.id>>)
               \o <<r.auth>>                                        \* tag bits 00
               \o [i \in 1..Len(r.integs) |-> 64 + r.integs[i]]     \* tag bits 01
               \o [i \in 1..Len(r.confs) |-> 128 + r.confs[i]]      \* tag bits 10
DataOf(recs) == FlattenSeq([i \in 1..Len(recs) |-> RecBytes(recs[i])])
\* one entry per (integrity, confidentiality) combination, integrity-major, None when a class is absent
Entry(r, i, c) == [CipherSuiteID |-> r.id, Enterprise |-> (IF r.oem THEN r.en ELSE <<0, 0, 0>>) \o <<0>>,
                   AuthenticationAlgorithm |-> r.auth, IntegrityAlgorithm |-> i, ConfidentialityAlgorithm |-> c]
Expand(r) == LET is == IF r.integs = <<>> THEN <<0>> ELSE r.integs
                 cs == IF r.confs = <<>> THEN <<0>> ELSE r.confs
             IN  [k \in 1..(Len(is) * Len(cs)) |-> Entry(r, is[((k - 1) \div Len(cs)) + 1], cs[((k - 1) % Len(cs)) + 1])]
ExpandAll(recs) == FlattenSeq([i \in 1..Len(recs) |-> Expand(recs[i])])

\* byte-level parser, structured like the implementation (offset walk); [ok |-> FALSE] for anything malformed
RECURSIVE TakeTagged(_, _, _)
TakeTagged(d, off, tag) ==   \* values of the consecutive bytes from offset off (1-based) whose top two bits equal tag
  IF off <= Len(d) /\ d[off] \div 64 = tag THEN <<d[off] % 64>> \o TakeTagged(d, off + 1, tag) ELSE <<>>
PErr == [ok |-> FALSE, v |-> <<>>]
RECURSIVE ParseAll(_)
ParseAll(d) ==
  IF d = <<>> THEN [ok |-> TRUE, v |-> <<>>]
  ELSE IF d[1] \div 2 # 96 THEN PErr                                   \* 0xC0 / 0xC1
  ELSE LET oem == d[1] % 2 = 1
           need == IF oem THEN 6 ELSE 3
       IN IF Len(d) < need THEN PErr
          ELSE LET aoff == IF oem THEN 6 ELSE 3
               IN IF d[aoff] \div 64 # 0 THEN PErr
                  ELSE LET integs == TakeTagged(d, aoff + 1, 1)
                           confs  == TakeTagged(d, aoff + 1 + Len(integs), 2)
                           r == [oem |-> oem, id |-> d[2], en |-> IF oem THEN SubSeq(d, 3, 5) ELSE <<0, 0, 0>>,
                                 auth |-> d[aoff], integs |-> integs, confs |-> confs]
                           rest == ParseAll(SubSeq(d, aoff + 1 + Len(integs) + Len(confs), Len(d)))
                       IN IF ~rest.ok THEN PErr ELSE [ok |-> TRUE, v |-> Expand(r) \o rest.v]

\* ----------------------------------------------------------------- selection
\* prefs: sequence of suites <<auth, integ, conf>>; adv: set of suites.  Result: [kind, suite, discovery]
Default == << <<3, 4, 1>>, <<1, 1, 1>> >>               \* suite 17, then suite 3
Eff(prefs) == IF prefs = <<>> THEN Default ELSE prefs
Select(prefs, adv) ==
  LET p == Eff(prefs) IN
  IF Len(p) = 1 THEN [kind |-> "propose", suite |-> p[1], discovery |-> FALSE]
  ELSE IF \E i \in 1..Len(p) : p[i] \in adv
       THEN [kind |-> "propose", suite |-> p[CHOOSE i \in 1..Len(p) : p[i] \in adv /\ \A j \in 1..(i - 1) : p[j] \notin adv],
             discovery |-> TRUE]
       ELSE [kind |-> "ErrNoSupportedCipherSuite", suite |-> <<0, 0, 0>>, discovery |-> TRUE]
SuitesOf(entries) == {<<entries[i].AuthenticationAlgorithm, entries[i].IntegrityAlgorithm, entries[i].ConfidentialityAlgorithm>> : i \in 1..Len(entries)}

\* ------------------------------------------------------------- state machine
CONSTANTS Universe,      \* set of records the BMC may hold
          MaxRecs,       \* length bound of the record list
          Corruptions,   \* subset of {"none", "trailing", "trunc1", "trunc2", "oemtrunc", "badauth"}
          LastIndex,     \* largest list index the request can express (3Fh on the wire; smaller in bounded models)
          G_Bound,       \* stop after the chunk at LastIndex (FALSE: one request more, whose index wraps to 0 on the wire)
          G_ShortStop,   \* stop at the first chunk shorter than 16 bytes
          G_Concat,      \* concatenate chunks before parsing (records may straddle chunks)
          Refusals,      \* list indices at which the BMC may refuse the request once (-1: never), during the first discovery
          G_ErrorOnRefusal, \* a refused chunk request fails the discovery (FALSE: it is taken for the end of the list)
          G_FreshBuffer, \* each discovery starts with an empty buffer (FALSE: kept on the connection, emptied only after a parse)
          G_FreshIndex   \* each discovery starts at list index 0 (FALSE: the request is kept on the connection)

VARIABLES recs, corrupt, data, idx, acc, pc, nreq, result,
          attempt,       \* 1: first discovery on the connection, 2: the one after it
          refuseAt, refused
vars == <<recs, corrupt, data, idx, acc, pc, nreq, result, attempt, refuseAt, refused>>

RECURSIVE SeqsUpTo(_, _)
SeqsUpTo(S, n) == IF n = 0 THEN {<<>>} ELSE SeqsUpTo(S, n - 1) \cup {Append(s, x) : s \in {t \in SeqsUpTo(S, n - 1) : Len(t) = n - 1}, x \in S}
\* malformed tails appended to well-formed data: each must turn the whole result into an error
Corrupt(d, c) == CASE c = "none" -> d
                   [] c = "trailing" -> d \o <<7, 1, 1>>                  \* not a start-of-record byte
                   [] c = "trunc1" -> d \o <<192>>                        \* standard record cut after its first byte
                   [] c = "trunc2" -> d \o <<192, 5>>                     \* ... after the suite ID
                   [] c = "oemtrunc" -> d \o <<193, 128, 1, 2, 3>>        \* OEM record without its algorithm bytes
                   [] c = "badauth" -> d \o <<192, 9, 200>>               \* authentication byte with tag bits 11

Init == /\ recs \in SeqsUpTo(Universe, MaxRecs) /\ corrupt \in Corruptions
        /\ data = Corrupt(DataOf(recs), corrupt)
        /\ Len(data) <= 16 * (LastIndex + 1)                 \* all the protocol can address
        /\ idx = 0 /\ acc = <<>> /\ pc = "fetch" /\ nreq = 0 /\ result = PErr
        /\ attempt = 1 /\ refuseAt \in Refusals /\ refused = FALSE

Chunk(i) == SubSeq(data, 16 * i + 1, IF 16 * i + 16 < Len(data) THEN 16 * i + 16 ELSE Len(data))
\* the BMC answers the request for list index refuseAt with a permanent completion code (first discovery only)
Refusal == /\ pc = "fetch" /\ attempt = 1 /\ idx = refuseAt
           /\ nreq' = nreq + 1 /\ refused' = TRUE
           /\ IF G_ErrorOnRefusal THEN result' = PErr /\ pc' = "done" ELSE result' = result /\ pc' = "parse"
           /\ UNCHANGED <<recs, corrupt, data, idx, acc, attempt, refuseAt>>
Fetch == /\ pc = "fetch" /\ ~(attempt = 1 /\ idx = refuseAt)
         /\ LET c == Chunk(idx % (LastIndex + 1)) IN                 \* the index field holds idx modulo its range
            /\ acc' = IF G_Concat THEN acc \o c ELSE c
            /\ nreq' = nreq + 1
            /\ IF (G_Bound /\ idx = LastIndex) \/ (~G_Bound /\ idx = LastIndex + 1) \/ (G_ShortStop /\ Len(c) < 16) \/ (~G_ShortStop /\ c = <<>>)
               THEN pc' = "parse" /\ idx' = idx
               ELSE pc' = "fetch" /\ idx' = idx + 1
         /\ UNCHANGED <<recs, corrupt, data, result, attempt, refuseAt, refused>>
Parse == /\ pc = "parse" /\ result' = ParseAll(acc) /\ pc' = "done"
         /\ UNCHANGED <<recs, corrupt, data, idx, acc, nreq, attempt, refuseAt, refused>>
\* the caller discovers again on the same connection (a second establishment, or a retry after the failed one)
Again == /\ pc = "done" /\ attempt = 1
         /\ attempt' = 2 /\ pc' = "fetch" /\ nreq' = 0 /\ refused' = FALSE /\ result' = PErr
         /\ idx' = IF G_FreshIndex THEN 0 ELSE idx
         \* a buffer kept on the connection is emptied after a parse, but not on the error return of a refused request
         /\ acc' = IF G_FreshBuffer \/ ~(refused /\ G_ErrorOnRefusal) THEN <<>> ELSE acc
         /\ UNCHANGED <<recs, corrupt, data, refuseAt>>
Next == Fetch \/ Refusal \/ Parse \/ Again
Spec == Init /\ [][Next]_vars /\ WF_vars(Next)

\* ------------------------------------------------------------------ properties
Done == pc = "done"
C16_AllRecordsExpandedInOrder == (Done /\ ~refused /\ corrupt = "none") => (result.ok /\ result.v = ExpandAll(recs))
C16_MalformedGivesErrorNotPartial == (Done /\ (refused \/ corrupt # "none")) => (~result.ok /\ result.v = <<>>)
C16_StopsAtShortChunkInclExactMultiple == (Done /\ ~refused) => nreq = IF Len(data) = 16 * (LastIndex + 1) THEN LastIndex + 1 ELSE (Len(data) \div 16) + 1
C16_Terminates == <>(Done /\ attempt = 2)
\* selection: the proposal is the caller's first preference among the advertised suites (exhaustive below)
=============================================================================
