------------------------------ MODULE SdrWalk ------------------------------
(* SDR repository device (IPMI v2.0 33.9-33.12) and the console walk of sdr_repository.go (RetrieveSDRRepository, walkSDRs).
   Records are [id, full, ver]; the chain order is the sequence order; ver makes
   contents distinguishable so that a mixed snapshot is visible. *)
EXTENDS Integers, Sequences, FiniteSets, TLC

CONSTANTS IDs,            \* record IDs the environment may use (subset of 0..0xFFFE)
          MaxRecs, MaxMods, MaxRounds,
          G_Compare,      \* console compares addition/erase time stamps after the walk
          G_KeyByOwnID,   \* result keyed by the record's own ID (header), not the requested one
          G_Reserve,      \* console passes its reservation and BMC enforces it on partial reads
          MaxFaults,      \* transient faults (lost reply, refusal) the environment may inject into console steps
          Stamps,         \* possible initial <<addition, erase>> time stamps (they need not be equal: a BMC that lost its clock)
          G_FreshMap,     \* every attempt collects into a fresh map (FALSE: one map shared by all attempts)
          G_CompareEach   \* each time stamp compared with its own earlier value (FALSE: only the later of the two)
LAST == 65535

VARIABLES recs, resv, resvCtr, tAdd, tErase, mods, verCtr,       \* BMC
          pc, round, t0, myResv, reqID, acc, hdr, nextID, result, \* console
          faults
vars == <<recs, resv, resvCtr, tAdd, tErase, mods, verCtr, pc, round, t0, myResv, reqID, acc, hdr, nextID, result, faults>>

Idx(id) == IF id = 0 /\ Len(recs) > 0 THEN 1
           ELSE IF \E i \in 1..Len(recs) : recs[i].id = id THEN CHOOSE i \in 1..Len(recs) : recs[i].id = id ELSE 0
NextOf(i) == IF i < Len(recs) THEN recs[i + 1].id ELSE LAST
Fulls(rs) == { [key |-> rs[i].id, id |-> rs[i].id, ver |-> rs[i].ver] : i \in {j \in 1..Len(rs) : rs[j].full} }

InitRepos == { rs \in UNION { [1..n -> [id : IDs, full : BOOLEAN, ver : {0}]] : n \in 1..MaxRecs } :
                 \A i, j \in 1..Len(rs) : i # j => rs[i].id # rs[j].id }
Init == /\ recs \in InitRepos /\ resv = 0 /\ resvCtr = 0 /\ (\E st \in Stamps : tAdd = st[1] /\ tErase = st[2]) /\ mods = 0 /\ verCtr = 0 /\ faults = 0
        /\ pc = "info1" /\ round = 1 /\ t0 = <<0, 0>> /\ myResv = 0 /\ reqID = 0 /\ acc = {} /\ hdr = [id |-> 0, full |-> FALSE, ver |-> 0]
        /\ nextID = 0 /\ result = "none"

\* ------------------------------------------------------------ environment
UnchangedConsole == UNCHANGED <<pc, round, t0, myResv, reqID, acc, hdr, nextID, result, faults>>
Running == pc \notin {"done", "failed"}
AddRec == /\ Running /\ mods < MaxMods /\ Len(recs) < MaxRecs
          /\ \E id \in IDs, f \in BOOLEAN, pos \in 0..Len(recs) :
               /\ \A i \in 1..Len(recs) : recs[i].id # id
               /\ recs' = SubSeq(recs, 1, pos) \o << [id |-> id, full |-> f, ver |-> verCtr + 1] >> \o SubSeq(recs, pos + 1, Len(recs))
          /\ verCtr' = verCtr + 1 /\ tAdd' = tAdd + 1 /\ resv' \in {0, resv} /\ mods' = mods + 1      \* 33.11.2: an addition may keep reservations
          /\ UNCHANGED <<resvCtr, tErase>> /\ UnchangedConsole
DelRec == /\ Running /\ mods < MaxMods /\ Len(recs) > 0
          /\ \E i \in 1..Len(recs) : recs' = SubSeq(recs, 1, i - 1) \o SubSeq(recs, i + 1, Len(recs))
          /\ tErase' = tErase + 1 /\ resv' = 0 /\ mods' = mods + 1
          /\ UNCHANGED <<resvCtr, tAdd, verCtr>> /\ UnchangedConsole
LoseResv == /\ Running /\ mods < MaxMods /\ resv # 0 /\ resv' = 0 /\ mods' = mods + 1
            /\ UNCHANGED <<recs, resvCtr, tAdd, tErase, verCtr>> /\ UnchangedConsole

\* ---------------------------------------------------------------- console
UnchangedBmc == UNCHANGED <<recs, resv, resvCtr, tAdd, tErase, mods, verCtr, faults>>
Later(a, b) == IF a > b THEN a ELSE b
Fail == IF round < MaxRounds
        THEN /\ pc' = "info1" /\ round' = round + 1 /\ result' = result
        ELSE /\ pc' = "failed" /\ round' = round /\ result' = "error"
Info1 == /\ pc = "info1" /\ t0' = <<tAdd, tErase>> /\ pc' = "reserve" /\ acc' = IF G_FreshMap THEN {} ELSE acc
         /\ UNCHANGED <<round, myResv, reqID, hdr, nextID, result>> /\ UnchangedBmc
Reserve == /\ pc = "reserve" /\ resvCtr' = resvCtr + 1 /\ resv' = resvCtr + 1 /\ myResv' = resvCtr + 1
           /\ reqID' = 0 /\ pc' = "hdr"
           /\ UNCHANGED <<recs, tAdd, tErase, mods, verCtr, round, t0, acc, hdr, nextID, result, faults>>
\* header read at offset 0: a stale reservation may or may not be refused
HdrRead == /\ pc = "hdr" /\ UnchangedBmc
           /\ LET i == Idx(reqID) IN
              \/ /\ i = 0 /\ Fail /\ UNCHANGED <<t0, myResv, reqID, acc, hdr, nextID>>                      \* 0xCB not present
              \/ /\ G_Reserve /\ myResv # resv /\ Fail /\ UNCHANGED <<t0, myResv, reqID, acc, hdr, nextID>>   \* 0xC5 (BMC chose to check)
              \/ /\ i # 0
                 /\ hdr' = recs[i] /\ nextID' = NextOf(i)
                 /\ pc' = IF recs[i].full THEN "body" ELSE "advance"
                 /\ UNCHANGED <<round, t0, myResv, reqID, acc, result>>
\* body read at offset 5: the reservation must be valid
BodyRead == /\ pc = "body" /\ UnchangedBmc
            /\ LET i == Idx(reqID) IN
               IF i = 0 \/ (G_Reserve /\ myResv # resv)
               THEN Fail /\ UNCHANGED <<t0, myResv, reqID, acc, hdr, nextID>>
               ELSE /\ acc' = acc \cup { [key |-> IF G_KeyByOwnID THEN hdr.id ELSE reqID, id |-> recs[i].id, ver |-> recs[i].ver] }
                    /\ nextID' = NextOf(i) /\ pc' = "advance"
                    /\ UNCHANGED <<round, t0, myResv, reqID, hdr, result>>
Advance == /\ pc = "advance" /\ UnchangedBmc
           /\ reqID' = nextID /\ pc' = IF nextID = LAST THEN "info2" ELSE "hdr"
           /\ UNCHANGED <<round, t0, myResv, acc, hdr, nextID, result>>
Info2 == /\ pc = "info2" /\ UnchangedBmc
         /\ IF G_Compare /\ (IF G_CompareEach THEN (t0[1] < tAdd \/ t0[2] < tErase) ELSE Later(t0[1], t0[2]) < Later(tAdd, tErase))
            THEN Fail /\ UNCHANGED <<t0, myResv, reqID, acc, hdr, nextID>>
            ELSE /\ pc' = "done" /\ result' = "ok" /\ UNCHANGED <<round, t0, myResv, reqID, acc, hdr, nextID>>
\* a transient fault in any request of the walk (a lost reply is a transport error inside a session; a refusal): the
\* attempt is abandoned and the outer retry of RetrieveSDRRepository starts over
Fault == /\ pc \in {"info1", "reserve", "hdr", "body", "info2"} /\ faults < MaxFaults
         /\ faults' = faults + 1 /\ Fail
         /\ UNCHANGED <<recs, resv, resvCtr, tAdd, tErase, mods, verCtr, t0, myResv, reqID, acc, hdr, nextID>>
Next == AddRec \/ DelRec \/ LoseResv \/ Info1 \/ Reserve \/ HdrRead \/ BodyRead \/ Advance \/ Info2 \/ Fault
Spec == Init /\ [][Next]_vars

\* ------------------------------------------------------------- properties
\* the returned map is exactly the Full Sensor Records of the repository at one instant
\* (here: now, because the environment stops when the walk is done), each under its own ID
ResultIsSnapshot == pc = "done" => acc = Fulls(recs)
KeysAreOwnIDs    == pc = "done" => \A r \in acc : r.key = r.id
EachOnce         == pc = "done" => \A r, q \in acc : r.id = q.id => r = q
=============================================================================
