package main

// Independent evaluation of the decimal term L((M*x + B*10^K1) * 10^K2) that
// Sensor.tla attaches to a reading: the linear part exactly with math/big
// rationals, the named function L with an evaluator that does not share the
// library's formulation (math.Cbrt instead of Pow(x, 1/3), products instead of
// Pow for squares and cubes, a rational reciprocal).

import (
	"math"
	"math/big"
)

func pow10(k int) *big.Rat {
	r := new(big.Rat).SetInt64(1)
	ten := new(big.Rat).SetInt64(10)
	if k < 0 {
		ten.Inv(ten)
		k = -k
	}
	for i := 0; i < k; i++ {
		r.Mul(r, ten)
	}
	return r
}

func evalFormula(f M) (float64, string) {
	m, x, b := int64(num(f["m"])), int64(num(f["x"])), int64(num(f["b"]))
	k1, k2 := num(f["k1"]), num(f["k2"])
	lin := new(big.Rat).SetInt64(m * x)
	bt := new(big.Rat).SetInt64(b)
	bt.Mul(bt, pow10(k1))
	lin.Add(lin, bt)
	lin.Mul(lin, pow10(k2))
	y, _ := lin.Float64()
	var r float64
	switch f["lin"] {
	case "linear":
		r = y
	case "ln":
		r = math.Log(y)
	case "log10":
		r = math.Log10(y)
	case "log2":
		r = math.Log2(y)
	case "e":
		r = math.Exp(y)
	case "exp10":
		r = math.Pow(10, y)
	case "exp2":
		r = math.Exp2(y)
	case "1/x":
		if lin.Sign() == 0 {
			r = math.Inf(1)
		} else {
			r, _ = new(big.Rat).Inv(lin).Float64()
		}
	case "sqr":
		r, _ = new(big.Rat).Mul(lin, lin).Float64()
	case "cube":
		c := new(big.Rat).Mul(lin, lin)
		r, _ = c.Mul(c, lin).Float64()
	case "sqrt":
		r = math.Sqrt(y)
	case "cubert":
		r = math.Cbrt(y) // the real cube root is defined for negative arguments
	default:
		return math.NaN(), "unknown"
	}
	switch {
	case math.IsNaN(r):
		return r, "nan"
	case math.IsInf(r, 0):
		return r, "inf"
	}
	return r, "finite"
}

func floatAgrees(got, ref float64) bool {
	if math.IsNaN(ref) {
		return math.IsNaN(got)
	}
	if math.IsInf(ref, 0) {
		return math.IsInf(got, 0) && (got > 0) == (ref > 0)
	}
	if math.IsNaN(got) || math.IsInf(got, 0) {
		return false
	}
	d := math.Abs(got - ref)
	return d <= 1e-9*math.Max(1e-300, math.Abs(ref)) || d <= 1e-300
}
