----------------------------- MODULE GenCipher -----------------------------
(* Scenarios for cipher-suite discovery (C16 a) and selection (C12): the BMC's
   record data and the expected result come from CipherSelect.tla; the scripted
   BMC is rule-driven (one rule per list index), so the library's request
   strategy is observed, not presupposed. *)
EXTENDS Crypto, Json, TLC, FiniteSets

CONSTANTS Seed, Family, Tier

CS == INSTANCE CipherSelect WITH Universe <- {}, MaxRecs <- 0, Corruptions <- {}, LastIndex <- 63, G_Bound <- TRUE, G_ShortStop <- TRUE, G_Concat <- TRUE,
                                recs <- <<>>, corrupt <- "none", data <- <<>>, idx <- 0, acc <- <<>>, pc <- "", nreq <- 0, attempt <- 1, refuseAt <- -1, refused <- FALSE,
                                Refusals <- {}, G_ErrorOnRefusal <- TRUE, G_FreshBuffer <- TRUE, G_FreshIndex <- TRUE,
                                result <- [ok |-> FALSE, v |-> <<>>]

Rnd(k, i) == ((k + 3) * 7919 + (i + 1) * 104729 + (Seed + 1) * 1299709 + (k * i) * 31) % 65536
Std(id, auth, integs, confs) == [oem |-> FALSE, id |-> id, en |-> <<0, 0, 0>>, auth |-> auth, integs |-> integs, confs |-> confs]
Oem(id, en, auth, integs, confs) == [oem |-> TRUE, id |-> id, en |-> en, auth |-> auth, integs |-> integs, confs |-> confs]
RecOf(k) ==
  LET ni == Rnd(k, 1) % 4   nc == Rnd(k, 2) % 4
      integs == [i \in 1..ni |-> 1 + (Rnd(k, 10 + i) % 4)]
      confs  == [i \in 1..nc |-> 1 + (Rnd(k, 20 + i) % 3)]
      auth == Rnd(k, 3) % 4
  IN IF Rnd(k, 4) % 3 = 0
     THEN Oem(128 + (Rnd(k, 5) % 64), <<Rnd(k, 6) % 256, Rnd(k, 7) % 256, Rnd(k, 8) % 256>>, auth, integs, confs)
     ELSE Std(Rnd(k, 5) % 20, auth, integs, confs)
ListOf(k, n) == [i \in 1..n |-> RecOf(k * 100 + i)]
Pair16 == << Oem(129, <<171, 2, 0>>, 1, <<1, 2>>, <<1, 2>>), Std(8, 2, <<2, 3>>, <<1>>) >>      \* 10 + 6 = 16 bytes
RECURSIVE Rep(_, _)
Rep(s, n) == IF n = 0 THEN <<>> ELSE s \o Rep(s, n - 1)

\* --------------------------------------------------------------- rule-driven BMC
\* Get Channel Cipher Suites (App 06h / 54h): request data = channel, payload type, 80h + list index
\* session-less message: RMCP 4 + wrapper 12 + message header 6 => request data at 22
\* Open Session Request (payload type 10h): answer with status 01h "insufficient resources": the handshake
\* stops there, the proposal has been observed
OsrRefuse == [rule |-> "osr", when |-> << Eq(Slice(Req, 5, 6), B(<<16>>)) >>,
              datagrams |-> << Dg(NullWrapper(17, Cat(<< Slice(Req, 16, 17), B(<<1, 0, 0>>), Slice(Req, 20, 24) >>)), [kind |-> "osr-refused"]) >>]

CipherReq(i) == [pt |-> 0, netfn |-> 6, cmd |-> 84, data |-> <<14, 0, 128 + i>>]

FailOnceC16(i) == [rule |-> "fail-once", when |-> << IsCipherReq, Eq(Slice(Req, 24, 25), B(<<128 + i>>)) >>, ifstate |-> [name |-> "n", eq |-> 0],
                   effects |-> << [k |-> "inc", name |-> "n"] >>,
                   datagrams |-> << Dg(NullWrapper(0, MsgRspE(EchoN, 7, 0, 84, 193, <<>>)), [kind |-> "chunk-refused"]) >>]
\* ------------------------------------------------------------------ C16 (a)
Discovery(id, recs, tail, tailname) ==
  LET data == CS!DataOf(recs) \o tail
      ok == tail = <<>>
      n == IF Len(data) = 1024 THEN 64 ELSE (Len(data) \div 16) + 1       \* list index 3Fh is the last there is
  IN [id |-> id, info |-> [family |-> "discovery", insess |-> FALSE, bytes |-> Len(data), chunks |-> n, tail |-> tailname],
      steps |-> << [k |-> "rules", rules |-> CipherRules(data)],
                   [k |-> "call", api |-> "RetrieveSupportedCipherSuites", label |-> "discover",
                    exp |-> [prop |-> "C16", outcome |-> IF ok THEN "value" ELSE "error",
                             value |-> IF ok THEN CS!ExpandAll(recs) ELSE <<>>,
                             reqs |-> [i \in 1..n |-> CipherReq(i - 1)]]] >>]
\* two discoveries on one connection: the second must start again at list index 0
DiscoveryTwice(id, recs) ==
  LET one == Discovery(id, recs, <<>>, "none") IN
  [one EXCEPT !.steps = one.steps \o << one.steps[2] >>, !.info = [one.info EXCEPT !.family = "discovery-twice"]]
Tails == << <<"zeropad", <<0, 0, 0>>>>, <<"zero1", <<0>>>>, <<"stray3f", <<192, 3, 1, 65, 63, 129>>>>, <<"trailing", <<7, 1, 1>>>>, <<"trunc1", <<192>>>>, <<"trunc2", <<192, 5>>>>, <<"oemtrunc", <<193, 128, 1, 2, 3>>>>,
            <<"oemtrunc1", <<193>>>>, <<"oemtrunc4", <<193, 128, 1, 2>>>>, <<"badauth", <<192, 9, 200>>>>, <<"badauth2", <<193, 130, 1, 2, 3, 70>>>> >>
DiscoverySet ==
  LET perLen == IF Tier = "thorough" THEN 24 ELSE 4
      good == { Discovery("d-" \o ToString(n) \o "-" \o ToString(j), ListOf(n * 50 + j, n), <<>>, "none") : n \in 0..20, j \in 1..perLen }
      exact == { Discovery("x-" \o ToString(m), Rep(Pair16, m), <<>>, "none") : m \in 1..5 }
               \cup { Discovery("x1-" \o ToString(m), Rep(Pair16, m) \o <<Std(3, 1, <<1>>, <<1>>)>>, <<>>, "none") : m \in 1..4 }
      bad == { Discovery("b-" \o ToString(n) \o "-" \o Tails[t][1], ListOf(n * 50 + t, n), Tails[t][2], Tails[t][1]) : n \in {0, 1, 2, 3, 5, 7}, t \in 1..Len(Tails) }
             \cup { Discovery("bx-" \o ToString(m) \o "-" \o Tails[t][1], Rep(Pair16, m), Tails[t][2], Tails[t][1]) : m \in 1..2, t \in 1..Len(Tails) }
      twice == { DiscoveryTwice("t-" \o ToString(n), ListOf(n * 50 + 9, n)) : n \in {0, 2, 4, 6, 9, 13} }
               \cup { DiscoveryTwice("tx-" \o ToString(m), Rep(Pair16, m)) : m \in 1..3 }
      \* everything the 6-bit list index can address: 62..64 full chunks, the last with and without a short chunk after it
      full == { Discovery("x-" \o ToString(m), Rep(Pair16, m), <<>>, "none") : m \in {62, 63, 64} }
              \cup { Discovery("x1-63", Rep(Pair16, 63) \o <<Std(3, 1, <<1>>, <<1>>)>>, <<>>, "none"),
                     Discovery("bx-63-trunc2", Rep(Pair16, 63), <<192, 5>>, "trunc2") }
      \* a chunk request refused with a permanent completion code (with or without a body after it): an error, not the
      \* chunks gathered so far as if the list had ended
      refused == { LET recs == ListOf(n * 50 + 3, n)
                       data == CS!DataOf(recs)
                       rules == << [rule |-> "refused", when |-> << IsCipherReq, Eq(Slice(Req, 24, 25), B(<<128 + i>>)) >>,
                                    datagrams |-> << Dg(NullWrapper(0, MsgRspE(EchoN, 7, 0, 84, cc, IF body THEN <<14>> ELSE <<>>)), [kind |-> "chunk-refused"]) >>] >> \o CipherRules(data)
                   IN [id |-> "ref-" \o ToString(n) \o "-" \o ToString(i) \o "-" \o ToString(cc) \o (IF body THEN "b" ELSE ""),
                       info |-> [family |-> "discovery-refused", insess |-> FALSE, bytes |-> Len(data), chunks |-> i, tail |-> "none"],
                       steps |-> << [k |-> "rules", rules |-> rules],
                                    [k |-> "call", api |-> "RetrieveSupportedCipherSuites", label |-> "discover",
                                     exp |-> [prop |-> "C16", outcome |-> "error", value |-> <<>>, reqs |-> [j \in 1..(i + 1) |-> CipherReq(j - 1)]]] >>]
                   : n \in {4, 7, 12}, i \in {0, 1, 2}, cc \in {193, 212, 255}, body \in BOOLEAN }
      \* the same discovery again after one that failed part-way (a chunk request refused once): the full, correct list
      again == { LET recs == ListOf(n * 50 + 7 + Seed, n)
                     data == CS!DataOf(recs)
                     one == Discovery("ag-" \o ToString(n) \o "-" \o ToString(i), recs, <<>>, "none")
                 IN [one EXCEPT !.steps = << [k |-> "rules", rules |-> << FailOnceC16(i) >> \o one.steps[1].rules, state |-> [n |-> 0]],
                                             [one.steps[2] EXCEPT !.label = "discover-fails", !.exp = [prop |-> "C16", outcome |-> "error", value |-> <<>>, reqs |-> [j \in 1..(i + 1) |-> CipherReq(j - 1)]]],
                                             one.steps[2] >>,
                                 !.info = [one.info EXCEPT !.family = "discovery-again", !.chunks = i]]
                 : n \in {4, 5, 6, 7, 9, 12, 17}, i \in {1, 2} }
  IN good \cup exact \cup bad \cup twice \cup full \cup {sc \in refused : sc.info.bytes >= 16 * sc.info.chunks}
     \cup {sc \in again : sc.info.bytes >= 16 * sc.info.chunks}
\* a chunk request after the first that is never answered (the context expires while it is being retried): an error -
\* what was gathered up to there is not the BMC's list, even where it happens to end on a record boundary
Unanswered ==
  { LET recs == Rep(Pair16, m)
        data == CS!DataOf(recs)
        lost == [rule |-> "unanswered", when |-> << IsCipherReq, Eq(Slice(Req, 24, 25), B(<<128 + i>>)) >>, datagrams |-> <<>>, cancel |-> TRUE]
    IN [id |-> "una-" \o ToString(m) \o "-" \o ToString(i),
        info |-> [family |-> "discovery-unanswered", insess |-> FALSE, bytes |-> Len(data), chunks |-> i, tail |-> "unanswered"],
        steps |-> << [k |-> "rules", rules |-> <<lost>> \o CipherRules(data)],
                     [k |-> "call", api |-> "RetrieveSupportedCipherSuites", label |-> "discover",
                      exp |-> [prop |-> "C13", outcome |-> "error", value |-> <<>>, maxreqs |-> i + 12]] >>]
    : m \in {1, 2, 4}, i \in 1..4 }
\* a BMC that answers every request with a full chunk of well-formed records: the enumeration must still end (C05)
EndlessRule == [rule |-> "endless", when |-> << IsCipherReq >>,
                datagrams |-> << Dg(NullWrapper(0, MsgRspE(EchoN, 7, 0, 84, 0, <<14>> \o CS!DataOf(Pair16))), [kind |-> "chunk", i |-> 0]) >>]
EndlessSet ==
  { [id |-> "endless-discovery", info |-> [family |-> "endless", insess |-> FALSE],
     steps |-> << [k |-> "rules", rules |-> << EndlessRule >>],
                  [k |-> "call", api |-> "RetrieveSupportedCipherSuites", label |-> "discover",
                   exp |-> [prop |-> "C05", outcome |-> "any", maxreqs |-> 64]] >>],
    [id |-> "endless-open", info |-> [family |-> "endless", insess |-> FALSE],
     steps |-> << [k |-> "rules", rules |-> << EndlessRule, OsrRefuse >>],
                  [k |-> "call", api |-> "NewV2Session", label |-> "open",
                   args |-> [Username |-> <<97>>, Password |-> <<98>>, KG |-> <<>>, MaxPrivilegeLevel |-> 4, PrivilegeLevelLookup |-> TRUE,
                             CipherSuites |-> <<>>],
                   exp |-> [prop |-> "C05", outcome |-> "any", maxreqs |-> 65]] >>] }

\* --------------------------------------------------------------------- C12
SelU == << <<3, 4, 1>>, <<1, 1, 1>>, <<2, 2, 1>>, <<1, 2, 1>>, <<3, 1, 1>> >>
SuiteId(s) == CASE s = <<3, 4, 1>> -> 17 [] s = <<1, 1, 1>> -> 3 [] s = <<2, 2, 1>> -> 8 [] s = <<1, 2, 1>> -> 130 [] s = <<3, 1, 1>> -> 15
RECURSIVE Inj(_, _)
Inj(S, n) == IF n = 0 THEN {<<>>} ELSE {Append(s, x) : s \in Inj(S, n - 1), x \in S}
PrefLists == UNION {Inj({SelU[i] : i \in 1..Len(SelU)}, n) : n \in 0..3}
RECURSIVE SetToSeq(_)
SetToSeq(S) == IF S = {} THEN <<>> ELSE LET x == CHOOSE y \in S : TRUE IN <<x>> \o SetToSeq(S \ {x})
AdvRecs(adv) == LET q == SetToSeq(adv) IN
   [i \in 1..Len(q) |-> IF SuiteId(q[i]) >= 128 THEN Oem(SuiteId(q[i]), <<1, 2, 3>>, q[i][1], <<q[i][2]>>, <<q[i][3]>>)
                        ELSE Std(SuiteId(q[i]), q[i][1], <<q[i][2]>>, <<q[i][3]>>)]
Suite(s) == [AuthenticationAlgorithm |-> s[1], IntegrityAlgorithm |-> s[2], ConfidentialityAlgorithm |-> s[3]]
PrefName(p) == IF p = <<>> THEN "default" ELSE ToString(Len(p))
Selection(id, prefs, adv) ==
  LET data == CS!DataOf(AdvRecs(adv))
      r == CS!Select(prefs, adv)
      n == (Len(data) \div 16) + 1
      disc == IF r.discovery THEN [i \in 1..n |-> CipherReq(i - 1)] ELSE <<>>
      osr == IF r.kind = "propose" THEN << [pt |-> 16, netfn |-> -1, cmd |-> -1, data |-> r.suite] >> ELSE <<>>
  IN [id |-> id, info |-> [family |-> "selection", insess |-> FALSE, prefs |-> prefs, advertised |-> SetToSeq(adv)],
      steps |-> << [k |-> "rules", rules |-> CipherRules(data) \o << OsrRefuse >>],
                   [k |-> "call", api |-> "NewV2Session", label |-> "open",
                    args |-> [Username |-> <<97>>, Password |-> <<98>>, KG |-> <<>>, MaxPrivilegeLevel |-> 4, PrivilegeLevelLookup |-> TRUE,
                              CipherSuites |-> [i \in 1..Len(prefs) |-> Suite(prefs[i])]],
                    exp |-> [prop |-> "C12", outcome |-> "errclass",
                             errclass |-> IF r.kind = "propose" THEN "other" ELSE "ErrNoSupportedCipherSuite",
                             reqs |-> disc \o osr]] >>]
\* records that list several integrity / confidentiality algorithms (22.15.1): the advertised set is every combination
SelectionRecs(id, prefs, recs) ==
  LET data == CS!DataOf(recs)
      adv == CS!SuitesOf(CS!ExpandAll(recs))
      r == CS!Select(prefs, adv)
      n == (Len(data) \div 16) + 1
      disc == IF r.discovery THEN [i \in 1..n |-> CipherReq(i - 1)] ELSE <<>>
      osr == IF r.kind = "propose" THEN << [pt |-> 16, netfn |-> -1, cmd |-> -1, data |-> r.suite] >> ELSE <<>>
  IN [id |-> id, info |-> [family |-> "selection-multi", insess |-> FALSE, prefs |-> prefs, advertised |-> SetToSeq(adv)],
      steps |-> << [k |-> "rules", rules |-> CipherRules(data) \o << OsrRefuse >>],
                   [k |-> "call", api |-> "NewV2Session", label |-> "open",
                    args |-> [Username |-> <<97>>, Password |-> <<98>>, KG |-> <<>>, MaxPrivilegeLevel |-> 4, PrivilegeLevelLookup |-> TRUE,
                              CipherSuites |-> [i \in 1..Len(prefs) |-> Suite(prefs[i])]],
                    exp |-> [prop |-> "C12", outcome |-> "errclass",
                             errclass |-> IF r.kind = "propose" THEN "other" ELSE "ErrNoSupportedCipherSuite",
                             reqs |-> disc \o osr]] >>]
MultiRec(s, iv, cv) == IF SuiteId(s) >= 128 THEN Oem(SuiteId(s), <<1, 2, 3>>, s[1], iv, cv) ELSE Std(SuiteId(s), s[1], iv, cv)
MultiSet ==
  { SelectionRecs("sm-" \o ToString(k) \o "-" \o ToString(a) \o ToString(b) \o ToString(c),
                  CASE c = 1 -> << SelU[k], SelU[(k % 5) + 1] >> [] c = 2 -> << SelU[(k % 5) + 1], SelU[k] >> [] OTHER -> <<>>,
                  << MultiRec(SelU[k],
                              CASE a = 1 -> << SelU[k][2] >> [] a = 2 -> << SelU[k][2], (SelU[k][2] % 4) + 1 >> [] OTHER -> << (SelU[k][2] % 4) + 1, SelU[k][2] >>,
                              CASE b = 1 -> << 1, 2 >> [] b = 2 -> << 2, 1 >> [] OTHER -> << 3, 1, 2 >>) >>
                  \o (IF c = 3 /\ k > 2 THEN << Std(3, 1, <<1, 2>>, <<2, 1, 3>>) >> ELSE <<>>))
      : k \in 1..5, a \in 1..3, b \in 1..3, c \in 1..3 }
SelectionTwice(id, prefs1, adv1, prefs2, adv2) ==
  LET a == Selection(id, prefs1, adv1)  b == Selection(id, prefs2, adv2) IN
  [a EXCEPT !.steps = a.steps \o b.steps, !.info = [a.info EXCEPT !.family = "selection-twice"]]
\* a discovery that fails part-way (a later chunk request is refused once), then the establishment is tried again on the
\* same connection: the second attempt must see exactly what the BMC advertises, nothing of the abandoned first one
FailOnce(i) == [rule |-> "fail-once", when |-> << IsCipherReq, Eq(Slice(Req, 24, 25), B(<<128 + i>>)) >>, ifstate |-> [name |-> "n", eq |-> 0],
                effects |-> << [k |-> "inc", name |-> "n"] >>,
                datagrams |-> << Dg(NullWrapper(0, MsgRspE(EchoN, 7, 0, 84, 193, <<>>)), [kind |-> "chunk-refused"]) >>]
AfterFailed(id, prefs, adv, failAt) ==
  LET b == Selection(id, prefs, adv)
      rulesStep == [k |-> "rules", rules |-> << FailOnce(failAt) >> \o b.steps[1].rules, state |-> [n |-> 0]]
      first == [b.steps[2] EXCEPT !.label = "open-fails",
                                  !.exp = [prop |-> "C12", outcome |-> "errclass", errclass |-> "other", reqs |-> [i \in 1..(failAt + 1) |-> CipherReq(i - 1)]]]
  IN [b EXCEPT !.steps = << rulesStep, first, b.steps[2] >>, !.info = [b.info EXCEPT !.family = "selection-after-failed-discovery"]]
AfterFailedRecs(id, prefs, recs, failAt) ==
  LET b == SelectionRecs(id, prefs, recs)
      rulesStep == [k |-> "rules", rules |-> << FailOnce(failAt) >> \o b.steps[1].rules, state |-> [n |-> 0]]
      first == [b.steps[2] EXCEPT !.label = "open-fails",
                                  !.exp = [prop |-> "C12", outcome |-> "errclass", errclass |-> "other", reqs |-> [i \in 1..(failAt + 1) |-> CipherReq(i - 1)]]]
  IN [b EXCEPT !.steps = << rulesStep, first, b.steps[2] >>, !.info = [b.info EXCEPT !.family = "selection-after-failed-discovery"]]
\* pseudo-random record lists (0..3 algorithms per class, standard and OEM): the 16-byte boundary falls at every position of
\* a record; preferences: two advertised combinations, and an unadvertised one first
AfterFailedSet ==
  LET U == {SelU[i] : i \in 1..Len(SelU)} IN
  { LET recs == ListOf(k * 3 + Seed, 4 + (k % 5))
        ents == CS!ExpandAll(recs)
        trip(e) == <<e.AuthenticationAlgorithm, e.IntegrityAlgorithm, e.ConfidentialityAlgorithm>>
        p == CASE v = 1 -> << trip(ents[Len(ents)]), trip(ents[1]) >>
               [] v = 2 -> << <<1, 0, 0>>, trip(ents[(k % Len(ents)) + 1]) >>
               [] OTHER -> << <<2, 3, 3>>, trip(ents[1]), <<1, 0, 0>> >>
    IN AfterFailedRecs("safr-" \o ToString(k) \o "-" \o ToString(v), p, recs, IF Len(CS!DataOf(recs)) >= 32 /\ k % 2 = 0 THEN 2 ELSE 1)
    : k \in {kk \in 1..(IF Tier = "thorough" THEN 120 ELSE 40) : Len(CS!DataOf(ListOf(kk * 3 + Seed, 4 + (kk % 5)))) > 16}, v \in 1..3 }
  \cup
  { AfterFailed("saf-" \o ToString(p) \o "-" \o ToString(Cardinality(a)), p, a, 1)
      : p \in {<<>>, <<SelU[4], SelU[1]>>, <<SelU[3], SelU[2]>>, <<SelU[5], SelU[3], SelU[1]>>}, a \in {U, U \ {SelU[1]}, U \ {SelU[2]}} }
SelectionSet ==
  LET U == {SelU[i] : i \in 1..Len(SelU)}
      prefs == IF Tier = "thorough" THEN PrefLists ELSE {p \in PrefLists : Len(p) <= 2} \cup {p \in PrefLists : Len(p) = 3 /\ (p[1][1] + p[2][2] + p[3][1] + Seed) % 5 = 0}
      \* histories: an establishment against a BMC lacking the first preference, then one against a BMC that has it,
      \* with the default list, with the same explicit list, over few and many advertised records
      pairs == { SelectionTwice("st-" \o ToString(p) \o "-" \o ToString(a1) \o "-" \o ToString(a2), p, a1, p, a2)
                   : p \in {<<>>, <<SelU[1], SelU[2]>>, <<SelU[3], SelU[1], SelU[2]>>}, a1 \in {{SelU[2]}, {SelU[2], SelU[4]}, U}, a2 \in {U, {SelU[1], SelU[2]}} }
      \* preference lists longer than any machine word has bits: the advertised preference is the 31st .. 40th entry
      filler == [i \in 1..40 |-> <<1 + (i % 3), 1 + (i % 4), 2 + (i % 2)>>]                 \* combinations no BMC here advertises (xRC4)
      long == { Selection("sl-" \o ToString(pos) \o "-" \o ToString(k), [i \in 1..(pos + k) |-> IF i = pos THEN SelU[2] ELSE IF i = pos + 1 /\ k > 0 THEN SelU[1] ELSE filler[i]], {SelU[1], SelU[2]})
                : pos \in {30, 31, 32, 33, 34, 40}, k \in {0, 1} }
  IN { Selection("s-" \o ToString(p) \o "-" \o ToString(a), p, a) : p \in prefs, a \in SUBSET U } \cup pairs \cup MultiSet \cup AfterFailedSet \cup long

\* C17: the same scenarios judged as histories on one connection (a second discovery / establishment must not see the first)
Reprop(sc, p) == [sc EXCEPT !.steps = [i \in 1..Len(sc.steps) |-> IF "exp" \in DOMAIN sc.steps[i]
                                                                   THEN [sc.steps[i] EXCEPT !.exp.prop = p] ELSE sc.steps[i]]]
ReuseSet ==
  LET U == {SelU[i] : i \in 1..Len(SelU)} IN
  { Reprop(DiscoveryTwice("rt-" \o ToString(n) \o "-" \o ToString(j), ListOf(n * 50 + j + Seed, n)), "C17") : n \in {0, 1, 2, 3, 4, 6, 9, 13, 20}, j \in 1..3 }
  \cup { Reprop(DiscoveryTwice("rtx-" \o ToString(m), Rep(Pair16, m)), "C17") : m \in {1, 2, 3, 5, 63} }
  \cup { Reprop(SelectionTwice("rst-" \o ToString(p) \o "-" \o ToString(a1) \o "-" \o ToString(a2), p, a1, p, a2), "C17")
            : p \in {<<>>, <<SelU[1], SelU[2]>>, <<SelU[3], SelU[1], SelU[2]>>}, a1 \in {{SelU[2]}, {SelU[2], SelU[4]}, U}, a2 \in {U, {SelU[1], SelU[2]}, {SelU[1]}} }

Scripts == CASE Family = "discovery13" -> { Reprop(sc, "C13") : sc \in {d \in DiscoverySet : d.info.tail # "none"} } \cup {u \in Unanswered : u.info.chunks <= u.info.bytes \div 16} [] Family = "discovery" -> DiscoverySet [] Family = "selection" -> SelectionSet [] Family = "endless" -> EndlessSet [] Family = "reuse" -> ReuseSet
Header == [header |-> TRUE, family |-> Family, defs |-> EchoDefs]
ASSUME PrintT(<<"HEADER", ToJson(Header)>>)
ASSUME \A s \in Scripts : PrintT(<<"SCRIPT", ToJson(s)>>)
ASSUME PrintT(<<"COUNT", ToJson([n |-> Cardinality(Scripts)])>>)
=============================================================================
