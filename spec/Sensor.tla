------------------------------- MODULE Sensor -------------------------------
(* Sensor reading conversion (IPMI v2.0 36.3, 43.1 byte 24, 35.14): which
   reader NewSensorReader builds, which refusal or error it gives, and the
   conversion formula  y = L((M*x + B*10^K1) * 10^K2)  as an exact decimal term.
   TLA+ fixes which arithmetic is performed on which operands; the real-number
   evaluation of the term is delegated (harness/formula.go). *)
EXTENDS Prims

\* table 43-1 byte 24, linearization: 0 linear, 1..11 the functions below, 70h non-linear, 71h-7Fh OEM non-linear
LinName(code) == CASE code = 0 -> "linear" [] code = 1 -> "ln" [] code = 2 -> "log10" [] code = 3 -> "log2" [] code = 4 -> "e"
                   [] code = 5 -> "exp10" [] code = 6 -> "exp2" [] code = 7 -> "1/x" [] code = 8 -> "sqr" [] code = 9 -> "cube"
                   [] code = 10 -> "sqrt" [] code = 11 -> "cubert" [] OTHER -> "none"
\* a reader exists exactly for linear and linearised sensors with an analog data format
Readable(lin, fmt) == lin \in 0..11 /\ fmt \in 0..2
\* 35.14 byte 3: [7] event messages enabled, [6] sensor scanning enabled, [5] reading/state unavailable
FlagByte(evt, scan, unavail) == (IF evt THEN 128 ELSE 0) + (IF scan THEN 64 ELSE 0) + (IF unavail THEN 32 ELSE 0)
\* error precedence: unavailable first, then scanning disabled
ReadOutcome(scan, unavail) == IF unavail THEN "ErrSensorReadingUnavailable" ELSE IF ~scan THEN "ErrSensorScanningDisabled" ELSE "value"
Formula(lin, fmt, raw, mM, bB, kB, kR) == [lin |-> LinName(lin), x |-> Analog(fmt, raw), m |-> mM, b |-> bB, k1 |-> kB, k2 |-> kR]
=============================================================================
