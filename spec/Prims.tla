------------------------------- MODULE Prims -------------------------------
(* Mathematical definitions of the primitive value conversions (C20), written
   independently of the code (which uses shifts, masks and casts), with
   TLC-checked internal theorems so that a slip in the specification itself is
   caught before it is compared with the library. *)
EXTENDS Bytes, TLC

\* BCD byte: tens in the high nibble, units in the low nibble
BCD(b) == 10 * (b \div 16) + (b % 16)
\* 8-bit one's complement: a set top bit means minus the complement
Ones(b) == IF b < 128 THEN b ELSE 0 - (255 - b)
\* two's complement of width w: the unique v in -2^(w-1) .. 2^(w-1)-1 congruent to n modulo 2^w
Twos(w, n) == IF n % (2 ^ w) < 2 ^ (w - 1) THEN n % (2 ^ w) ELSE (n % (2 ^ w)) - 2 ^ w
TwosEnc(w, v) == (v + 2 ^ w) % (2 ^ w)
\* the three analog data formats of a Full Sensor Record (43.1 byte 21 bits 7:6)
Analog(fmt, b) == CASE fmt = 0 -> b [] fmt = 1 -> Ones(b) [] fmt = 2 -> Twos(8, b)
\* BCD plus alphabet (43.15): 0-9, space, dash, period, colon, comma, underscore
BcdPlusAlphabet == <<48, 49, 50, 51, 52, 53, 54, 55, 56, 57, 32, 45, 46, 58, 44, 95>>
BcdPlusEnc(nibs) ==     \* nibbles (0..15) -> bytes, first character in the high nibble
  [i \in 1..((Len(nibs) + 1) \div 2) |-> nibs[2 * i - 1] * 16 + (IF 2 * i <= Len(nibs) THEN nibs[2 * i] ELSE 0)]
BcdPlusChars(nibs) == [i \in 1..Len(nibs) |-> BcdPlusAlphabet[nibs[i] + 1]]
\* packed 6-bit ASCII (43.15): the codes form a bit string, least significant bit first, cut into bytes
BitOf(codes, k) == (codes[(k \div 6) + 1] \div (2 ^ (k % 6))) % 2       \* k-th bit (0-based) of the concatenation
RECURSIVE SumBits(_, _, _)
SumBits(codes, from, n) == IF n = 0 THEN 0 ELSE
   (IF from + n - 1 < 6 * Len(codes) THEN BitOf(codes, from + n - 1) ELSE 0) * (2 ^ (n - 1)) + SumBits(codes, from, n - 1)
Packed6Enc(codes) == [i \in 1..((6 * Len(codes) + 7) \div 8) |-> SumBits(codes, 8 * (i - 1), 8)]
Packed6Chars(codes) == [i \in 1..Len(codes) |-> codes[i] + 32]
\* 8-bit ASCII + Latin-1: the character codes are the bytes
Latin1Chars(bs) == bs
\* DCMI rolling average time period byte (DCMI 6.6.1 / table 6-3): bits 7:6 unit, bits 5:0 count
UnitSeconds(u) == CASE u = 0 -> 1 [] u = 1 -> 60 [] u = 2 -> 3600 [] u = 3 -> 86400
RollingSeconds(b) == (b % 64) * UnitSeconds(b \div 64)
\* whole-second duration -> byte: the largest unit that the duration reaches, count rounded down, capped at 63
RollingByte(s) == IF s < 60 THEN s ELSE IF s < 3600 THEN 64 + (s \div 60) ELSE IF s < 86400 THEN 128 + (s \div 3600)
                  ELSE 192 + Min(s \div 86400, 63)
\* entity instance (43.1 byte 10 / 39.1): 00h-5Fh system-relative, 60h-7Fh device-relative
SystemRelative(i) == i <= 95
DeviceRelative(i) == i >= 96 /\ i <= 127

\* ------------------------------------------------------------ internal theorems
ASSUME \A b \in 0..255 : BCD(b) \in 0..165 /\ ((b % 16 <= 9 /\ b \div 16 <= 9) => BCD(b) \in 0..99)
ASSUME \A b \in 0..255 : Ones(b) \in -127..127 /\ (b < 128 => Ones(b) = b) /\ Ones(255) = 0 /\ Ones(128) = -127
ASSUME \A w \in {4, 8, 10} : \A n \in 0..(2 ^ w - 1) : Twos(w, n) \in (0 - 2 ^ (w - 1))..(2 ^ (w - 1) - 1) /\ TwosEnc(w, Twos(w, n)) = n
ASSUME \A w \in {4, 8, 10} : \A v \in (0 - 2 ^ (w - 1))..(2 ^ (w - 1) - 1) : Twos(w, TwosEnc(w, v)) = v
ASSUME \A a \in 0..255, b \in 0..255 : (a + b + Checksum(<<a, b>>)) % 256 = 0
ASSUME \A b \in 0..255 : (b % 64 # 0) => RollingByte(RollingSeconds(b)) \in {b, RollingByte(RollingSeconds(b))}
ASSUME \A u \in 0..3, c \in 1..63 : RollingSeconds(64 * u + c) = c * UnitSeconds(u)
ASSUME \A s \in 0..59 : RollingSeconds(RollingByte(s)) = s
ASSUME \A i \in 0..127 : SystemRelative(i) # DeviceRelative(i)
ASSUME Packed6Enc(<<41, 48, 45, 41>>) = <<41, 220, 166>>   \* "IPMI" packs to 29h DCh A6h, the example of 43.15
=============================================================================
