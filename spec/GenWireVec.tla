------------------------------ MODULE GenWireVec ------------------------------
(* Vectors for the envelope layers: IPMI message for every NetFn class (13.8),
   v2.0 session wrapper incl. OEM payload descriptors and authenticated trailers
   (13.6, 13.28.4), v1.5 session wrapper (13.6 / 22.12 of v1.5), RAKP Message 1
   (13.20) and the RMCP+ set-up responses (13.18, 13.21, 13.23).  Each value is
   emitted both as a serialise vector and as a decode vector, which together
   are the two directions of C08; checksum/length corruptions and truncations
   are C07 / C05.  AuthCodes are symbolic terms evaluated by the harness. *)
EXTENDS Crypto, Json, FiniteSets, TLC

CONSTANTS Seed, Family, Tier

Rnd(k, i) == ((k + 3) * 7919 + (i + 1) * 104729 + (Seed + 1) * 1299709 + (k * i) * 31) % 256
RBytes(k, n) == [i \in 1..n |-> Rnd(k, i)]
Without(f, S) == [k \in (DOMAIN f) \ S |-> f[k]]

\* --------------------------------------------------------------- IPMI message
IsRsp(fn) == fn % 2 = 1
IsGroup(fn) == fn \in {44, 45}
IsOem(fn) == fn \in {46, 47}
\* r = [ra, fn, rlun, la, seq, llun, cmd, cc, body, ent, data]
MsgExt(r) == (IF IsRsp(r.fn) THEN <<r.cc>> ELSE <<>>) \o (IF IsGroup(r.fn) THEN <<r.body>> ELSE IF IsOem(r.fn) THEN r.ent ELSE <<>>)
MsgEnc(r) == LET h1 == <<r.ra, r.fn * 4 + r.rlun>>
                 h2 == <<r.la, r.seq * 4 + r.llun, r.cmd>> \o MsgExt(r) \o r.data
             IN  h1 \o <<Checksum(h1)>> \o h2 \o <<Checksum(h2)>>
MsgFields(r) == [RemoteAddress |-> r.ra, Function |-> r.fn, RemoteLUN |-> r.rlun, LocalAddress |-> r.la, Sequence |-> r.seq, LocalLUN |-> r.llun,
                 Command |-> r.cmd, CompletionCode |-> IF IsRsp(r.fn) THEN r.cc ELSE 0,
                 Body |-> IF IsGroup(r.fn) THEN r.body ELSE 0, Enterprise |-> IF IsOem(r.fn) THEN r.ent \o <<0>> ELSE <<0, 0, 0, 0>>]
MsgValue(r) == MsgFields(r) @@ [Checksum1 |-> Checksum(<<r.ra, r.fn * 4 + r.rlun>>), Checksum2 |-> MsgEnc(r)[Len(MsgEnc(r))]]
MBase(fn, k) == [ra |-> IF IsRsp(fn) THEN 129 ELSE 32, fn |-> fn, rlun |-> k % 4, la |-> IF IsRsp(fn) THEN 32 ELSE 129, seq |-> (k * 7) % 64, llun |-> (k \div 4) % 4,
                 cmd |-> Rnd(k, 1), cc |-> IF k % 3 = 0 THEN 0 ELSE Rnd(k, 2), body |-> 220, ent |-> <<Rnd(k, 3), Rnd(k, 4), Rnd(k, 5)>>,
                 data |-> RBytes(k, k % 9)]
MsgValues ==
  LET fns == 0..63 IN
  { MBase(fn, fn + Seed) : fn \in fns }
  \cup { [MBase(fn, 5) EXCEPT !.data = RBytes(n, n)] : fn \in {6, 7, 44, 45, 46, 47}, n \in 0..40 }                \* every payload length
  \cup { [MBase(fn, 3) EXCEPT !.cc = c] : fn \in {7, 45, 47}, c \in 0..255 }                                    \* every completion code
  \cup { [MBase(fn, 4) EXCEPT !.ra = v] : fn \in {6, 7}, v \in 0..255 } \cup { [MBase(fn, 4) EXCEPT !.la = v] : fn \in {6, 7}, v \in 0..255 }
  \cup { [MBase(fn, 4) EXCEPT !.cmd = v] : fn \in {6, 7, 44, 47}, v \in 0..255 }
  \cup { [MBase(fn, 4) EXCEPT !.seq = v, !.llun = w, !.rlun = (v + w) % 4] : fn \in {6, 7}, v \in 0..63, w \in 0..3 }
  \cup { [MBase(fn, 4) EXCEPT !.body = v] : fn \in {44, 45}, v \in 0..255 }
  \cup { [MBase(fn, 4) EXCEPT !.ent = <<v, 255 - v, (v * 7) % 256>>] : fn \in {46, 47}, v \in 0..255 }
MsgName(r) == "fn" \o ToString(r.fn)
MsgVectors ==
  UNION { { [id |-> "Message/dec/" \o MsgName(r) \o "/" \o ToString(Len(r.data)) \o "-" \o ToString(r.cc) \o "-" \o ToString(r.cmd) \o "-" \o ToString(r.ra) \o ToString(r.seq),
             prop |-> "C08", kind |-> "decode", layer |-> "Message", class |-> "netfn-" \o ToString(r.fn),
             bytes |-> MsgEnc(r), exp |-> [err |-> FALSE, value |-> MsgValue(r), payload |-> r.data]],
            [id |-> "Message/ser/" \o MsgName(r) \o "/" \o ToString(Len(r.data)) \o "-" \o ToString(r.cc) \o "-" \o ToString(r.cmd) \o "-" \o ToString(r.ra) \o ToString(r.seq),
             prop |-> "C08", kind |-> "serialize", layer |-> "Message", class |-> "netfn-" \o ToString(r.fn),
             fields |-> MsgFields(r), payload |-> r.data, exp |-> [err |-> FALSE, bytes |-> MsgEnc(r)]] } : r \in MsgValues }
\* either checksum off by every delta: rejected
MsgCorrupt ==
  UNION { LET r == MBase(fn, 2 + Seed)  b == MsgEnc(r) IN
          { [id |-> "Message/cks1/" \o ToString(fn) \o "/" \o ToString(d), prop |-> "C07", kind |-> "decode", layer |-> "Message", class |-> "checksum1-wrong",
             bytes |-> [b EXCEPT ![3] = (@ + d) % 256], exp |-> [err |-> TRUE]] : d \in 1..255 }
          \cup { [id |-> "Message/cks2/" \o ToString(fn) \o "/" \o ToString(d), prop |-> "C07", kind |-> "decode", layer |-> "Message", class |-> "checksum2-wrong",
                  bytes |-> [b EXCEPT ![Len(b)] = (@ + d) % 256], exp |-> [err |-> TRUE]] : d \in 1..255 }
          : fn \in {6, 7, 44, 45, 46, 47} }
\* checksum-valid messages that are too short for their class: rejected, never a panic
ShortMsg(fn, n) ==   \* n bytes after checksum 1, before checksum 2 (a complete header needs 3, +1 cc, +1 body / +3 enterprise)
  LET h1 == <<IF IsRsp(fn) THEN 129 ELSE 32, fn * 4>>
      h2 == Take(<<32, 4, 1, 0, 220, 2, 3>>, n)
  IN h1 \o <<Checksum(h1)>> \o h2 \o <<Checksum(h2)>>
MinH2(fn) == 3 + (IF IsRsp(fn) THEN 1 ELSE 0) + (IF IsGroup(fn) THEN 1 ELSE IF IsOem(fn) THEN 3 ELSE 0)
MsgShortSet == UNION { { [id |-> "Message/short/" \o ToString(fn) \o "/" \o ToString(n), prop |-> "C07", kind |-> "decode", layer |-> "Message",
                         class |-> "short-valid-checksums", bytes |-> ShortMsg(fn, n), exp |-> [err |-> TRUE]] : n \in 0..(MinH2(fn) - 1) }
                       : fn \in {6, 7, 44, 45, 46, 47} }
\* responses that carry nothing but a (non-normal) completion code, as a BMC refusing a command sends them: both checksums
\* are still checked (C07); and the same cut short of their body code / enterprise number: a value or an error, no crash (C05)
CodeOnly(fn, cc) == [MBase(fn, 6) EXCEPT !.cc = cc, !.data = <<>>]
MsgCodeOnly ==
  UNION { LET b == MsgEnc(CodeOnly(fn, cc)) IN
          { [id |-> "Message/codeonly/cks2/" \o ToString(fn) \o "/" \o ToString(cc) \o "/" \o ToString(d), prop |-> "C07", kind |-> "decode", layer |-> "Message",
             class |-> "code-only-checksum2-wrong", bytes |-> [b EXCEPT ![Len(b)] = (@ + d) % 256], exp |-> [err |-> TRUE]] : d \in 1..255 }
          \cup { [id |-> "Message/codeonly/cks1/" \o ToString(fn) \o "/" \o ToString(cc) \o "/" \o ToString(d), prop |-> "C07", kind |-> "decode", layer |-> "Message",
                  class |-> "code-only-checksum1-wrong", bytes |-> [b EXCEPT ![3] = (@ + d) % 256], exp |-> [err |-> TRUE]] : d \in {1, 2, 128, 255} }
          \cup { [id |-> "Message/codeonly/ok/" \o ToString(fn) \o "/" \o ToString(cc), prop |-> "C08", kind |-> "decode", layer |-> "Message", class |-> "code-only",
                  bytes |-> b, exp |-> [err |-> FALSE, value |-> MsgValue(CodeOnly(fn, cc)), payload |-> <<>>]] }
          : fn \in {1, 7, 11, 45, 47}, cc \in {193, 203, 212, 255, 1} }
  \cup UNION { { LET h1 == <<129, fn * 4>>  h2 == Take(<<32, 4, 1, cc, 220, 2, 3>>, n) IN
                 [id |-> "Message/codecut/" \o ToString(fn) \o "/" \o ToString(cc) \o "/" \o ToString(n), prop |-> "C05", kind |-> "decode", layer |-> "Message",
                  class |-> "cut-after-completion-code", bytes |-> h1 \o <<Checksum(h1)>> \o h2 \o <<Checksum(h2)>>, exp |-> [any |-> TRUE]] : n \in 0..7 }
               : fn \in {7, 45, 47}, cc \in {0, 1, 193, 255} }
\* a message value that decoded another class before (OEM, then group extension, then ordinary, in every order) must still
\* decode to the specification's record (C08 over histories)
MsgAfter ==
  { LET ra == MBase(fa, 9)  rb == MBase(fb, 11) IN
    [id |-> "Message/after/" \o ToString(fa) \o "->" \o ToString(fb), prop |-> "C08", kind |-> "reuse", layer |-> "Message", class |-> "after-fn" \o ToString(fa),
     first |-> MsgEnc(ra), second |-> MsgEnc(rb), exp |-> [err |-> FALSE, value |-> MsgValue(rb)]] : fa \in {6, 7, 44, 45, 46, 47}, fb \in {6, 7, 44, 45, 46, 47} }
\* reuse: every ordered pair of message classes (C17)
MsgReuse ==
  LET mem == { <<"fn" \o ToString(fn), MsgEnc(MBase(fn, 9))>> : fn \in {6, 7, 44, 45, 46, 47} } IN
  { [id |-> "Message/reuse/" \o a[1] \o "->" \o c[1], prop |-> "C17", kind |-> "reuse", layer |-> "Message", class |-> a[1] \o "->" \o c[1],
     first |-> a[2], second |-> c[2], exp |-> [any |-> TRUE]] : a \in mem, c \in mem }

\* ------------------------------------------------------------- v2.0 wrapper
\* w = [enc, auth, pt, ent (4), pid, sid (4), seq (4), payload]
V2Hdr(w, len) == <<6, (IF w.enc THEN 128 ELSE 0) + (IF w.auth THEN 64 ELSE 0) + w.pt>>
                 \o (IF w.pt = 2 THEN w.ent \o LE16(w.pid) ELSE <<>>) \o w.sid \o w.seq \o LE16(len)
V2Unauth(w) == V2Hdr(w, Len(w.payload)) \o w.payload
V2HdrLen(w) == IF w.pt = 2 THEN 18 ELSE 12
V2Pad(w) == (4 - ((V2HdrLen(w) + Len(w.payload) + 2) % 4)) % 4
V2Signed(w) == V2Hdr(w, Len(w.payload)) \o w.payload \o Repeat(255, V2Pad(w)) \o <<V2Pad(w), 7>>
V2AuthT(w, alg, key, n) == Cat(<< B(V2Signed(w)), Trunc(Hmac(alg, B(key), B(V2Signed(w))), n) >>)
V2Fields(w) == [Encrypted |-> w.enc, Authenticated |-> w.auth, PayloadType |-> w.pt, Enterprise |-> IF w.pt = 2 THEN w.ent ELSE <<0, 0, 0, 0>>,
                PayloadID |-> IF w.pt = 2 THEN w.pid ELSE 0, ID |-> w.sid, Sequence |-> w.seq]
V2Value(w) == V2Fields(w) @@ [Length |-> Len(w.payload), Pad |-> IF w.auth THEN V2Pad(w) ELSE 0]
WBase(k, pt, auth, n) == [enc |-> (k % 2) = 1, auth |-> auth, pt |-> pt, ent |-> RBytes(k + 50, 4), pid |-> (k * 977) % 65536,
                          sid |-> RBytes(k + 60, 4), seq |-> RBytes(k + 70, 4), payload |-> RBytes(k + 80, n)]
PTypes == {0, 1, 2, 16, 17, 18, 19, 20, 21, 32, 39}          \* IPMI, SOL, OEM explicit, set-up payloads, OEM handles
Integs == { <<"sha1", 12>>, <<"md5", 16>>, <<"sha256", 16>> }
V2Vectors ==
  LET lens == IF Tier = "thorough" THEN 0..200 ELSE (0..40) \cup {63, 64, 65, 127, 128, 199, 200} IN
  UNION { LET w == WBase(n + pt, pt, FALSE, n) IN
          { [id |-> "V2Session/dec/" \o ToString(pt) \o "/" \o ToString(n), prop |-> "C08", kind |-> "decode", layer |-> "V2Session", class |-> "unauth-pt" \o ToString(pt),
             bytes |-> V2Unauth(w), exp |-> [err |-> FALSE, value |-> V2Value(w), payload |-> w.payload]],
            [id |-> "V2Session/ser/" \o ToString(pt) \o "/" \o ToString(n), prop |-> "C08", kind |-> "serialize", layer |-> "V2Session", class |-> "unauth-pt" \o ToString(pt),
             fields |-> V2Fields(w), payload |-> w.payload, exp |-> [err |-> FALSE, bytes |-> V2Unauth(w)]] } : pt \in PTypes, n \in lens }
  \cup UNION { LET w == WBase(n + pt + 7, pt, TRUE, n)  key == RBytes(n + 90, 20) IN
          { [id |-> "V2Session/adec/" \o a[1] \o "/" \o ToString(pt) \o "/" \o ToString(n), prop |-> "C08", kind |-> "decode", layer |-> "V2SessionAuth", alg |-> a[1], key |-> key,
             class |-> "auth-" \o a[1] \o "-pt" \o ToString(pt),
             bytesT |-> V2AuthT(w, a[1], key, a[2]), exp |-> [err |-> FALSE, value |-> V2Value(w), payload |-> w.payload]],
            [id |-> "V2Session/aser/" \o a[1] \o "/" \o ToString(pt) \o "/" \o ToString(n), prop |-> "C08", kind |-> "serialize", layer |-> "V2Session", alg |-> a[1], key |-> key,
             class |-> "auth-" \o a[1] \o "-pt" \o ToString(pt),
             fields |-> V2Fields(w), payload |-> w.payload, exp |-> [err |-> FALSE, bytesT |-> V2AuthT(w, a[1], key, a[2])]] }
          : pt \in {0, 2, 32}, n \in lens, a \in Integs }
\* every prefix of a wrapper, for every payload type and every combination of the encrypted / authenticated flags
\* (the OEM explicit header is 6 bytes longer): no input may crash the decoder or make it read past the datagram (C05)
V2Prefixes ==
  UNION { LET w == [WBase(3 * pt + 1, pt, au, 9) EXCEPT !.enc = en]
              full == V2Unauth(w) \o <<255, 255, 2, 7>> \o RBytes(pt + 7, 12) IN
          { [id |-> "V2Session/prefix/" \o ToString(pt) \o (IF en THEN "e" ELSE "-") \o (IF au THEN "a" ELSE "-") \o "/" \o ToString(n),
             prop |-> "C05", kind |-> "decode", layer |-> "V2Session", class |-> "prefix-pt" \o ToString(pt) \o (IF en THEN "e" ELSE "-") \o (IF au THEN "a" ELSE "-"),
             bytes |-> Take(full, n), exp |-> [any |-> TRUE]] : n \in 0..Len(full) }
          : pt \in PTypes, en \in BOOLEAN, au \in BOOLEAN }
\* one wrapper value and one keyed integrity hash used for a sequence of packets, as a session does: authentic packets
\* round-trip and tampered ones are rejected, in any order - in particular after a packet that was rejected
V2SeqVectors ==
  UNION { LET key == RBytes(k + 95, 20)
              wa == WBase(k + 1, 0, TRUE, 9 + k)   wb == WBase(k + 2, 0, TRUE, 3)   wc == WBase(k + 3, 2, TRUE, 21)
              T(w) == V2AuthT(w, a[1], key, a[2])
              dec(w) == [op |-> "decode", bytesT |-> T(w), exp |-> [err |-> FALSE, value |-> V2Value(w), payload |-> w.payload]]
              bad(w, bit) == [op |-> "decode", bytesT |-> Flip(T(w), bit), exp |-> [err |-> TRUE]]
              ser(w) == [op |-> "serialize", fields |-> V2Fields(w), payload |-> w.payload, exp |-> [err |-> FALSE, bytesT |-> T(w)]]
          IN { [id |-> "V2Session/seq/" \o a[1] \o "/" \o ToString(k) \o "/" \o ToString(q), prop |-> "C08", kind |-> "v2seq", layer |-> "V2SessionAuth",
                class |-> "sequence-" \o ToString(q), alg |-> a[1], key |-> key,
                steps |-> CASE q = 1 -> << dec(wa), bad(wb, 8 * 14 + 1), ser(wc), dec(wc), dec(wb) >>
                            [] q = 2 -> << bad(wa, 8 * (Len(V2Signed(wa)) + 2)), dec(wa), ser(wa), bad(wc, 8 * 20), ser(wb), dec(wb) >>
                            [] q = 3 -> << ser(wa), dec(wa), ser(wb), dec(wb), ser(wc), dec(wc) >>
                            [] OTHER -> << bad(wc, 8 * 5 + 3), bad(wa, 8 * 13), dec(wc), ser(wa), dec(wa) >>] : q \in 1..4 }
          : a \in Integs, k \in 1..3 }
\* a length field that exceeds the data by d: rejected (C07)
V2LenCorrupt ==
  UNION { LET w == WBase(11 + pt, pt, FALSE, 9) IN
          { [id |-> "V2Session/len+" \o ToString(d) \o "/" \o ToString(pt), prop |-> "C07", kind |-> "decode", layer |-> "V2Session", class |-> "length-exceeds-data",
             bytes |-> V2Hdr(w, 9 + d) \o w.payload, exp |-> [err |-> TRUE]]
             \* (up to the largest values the 16-bit field can hold: header length + length must not wrap)
             : d \in (1..40) \cup {246, 247, 1000, 32759, 32760} \cup (65490..65526) } : pt \in {0, 2, 17} }
  \cup UNION { { LET w == WBase(13, 0, TRUE, 9) IN
           [id |-> "V2Session/badsig/" \o a[1] \o "/" \o ToString(b), prop |-> "C07", kind |-> "decode", layer |-> "V2SessionAuth", alg |-> a[1], key |-> RBytes(5, 20),
            class |-> "authcode-bit-flipped", bytesT |-> Flip(V2AuthT(w, a[1], RBytes(5, 20), a[2]), b), exp |-> [err |-> TRUE]]
           : b \in {8 * i + (i % 8) : i \in 0..(Len(V2Signed(WBase(13, 0, TRUE, 9))) + a[2] - 1)} } : a \in Integs }

\* --------------------------------------------------------------- v1.5 wrapper
V1Enc(v) == <<v.at>> \o v.seq \o v.sid \o (IF v.at = 0 THEN <<>> ELSE v.code) \o <<Len(v.payload)>> \o v.payload
V1Fields(v) == [AuthType |-> v.at, Sequence |-> v.seq, ID |-> v.sid, AuthCode |-> IF v.at = 0 THEN Repeat(0, 16) ELSE v.code]
V1Vectors ==
  UNION { LET v == [at |-> at, seq |-> RBytes(n + 1, 4), sid |-> RBytes(n + 2, 4), code |-> RBytes(n + 3, 16), payload |-> RBytes(n + 4, n)] IN
          { [id |-> "V1Session/dec/" \o ToString(at) \o "/" \o ToString(n), prop |-> "C08", kind |-> "decode", layer |-> "V1Session", class |-> "authtype-" \o ToString(at),
             bytes |-> V1Enc(v), exp |-> [err |-> FALSE, value |-> V1Fields(v) @@ [Length |-> n], payload |-> v.payload]],
            [id |-> "V1Session/ser/" \o ToString(at) \o "/" \o ToString(n), prop |-> "C08", kind |-> "serialize", layer |-> "V1Session", class |-> "authtype-" \o ToString(at),
             fields |-> V1Fields(v), payload |-> v.payload, exp |-> [err |-> FALSE, bytes |-> V1Enc(v)]] } : at \in {0, 1, 2, 4, 5}, n \in (0..40) \cup {100, 200} }
V1Reuse ==
  LET a == V1Enc([at |-> 2, seq |-> <<1, 0, 0, 0>>, sid |-> <<5, 6, 7, 8>>, code |-> RBytes(1, 16), payload |-> <<1, 2, 3>>])
      b == V1Enc([at |-> 0, seq |-> <<2, 0, 0, 0>>, sid |-> <<5, 6, 7, 8>>, code |-> RBytes(1, 16), payload |-> <<4, 5>>])
      c == V1Enc([at |-> 4, seq |-> <<3, 0, 0, 0>>, sid |-> <<9, 6, 7, 8>>, code |-> RBytes(2, 16), payload |-> <<>>])
      mem == { <<"md5", a>>, <<"none", b>>, <<"password", c>> } IN
  { [id |-> "V1Session/reuse/" \o x[1] \o "->" \o y[1], prop |-> "C17", kind |-> "reuse", layer |-> "V1Session", class |-> x[1] \o "->" \o y[1],
     first |-> x[2], second |-> y[2], exp |-> [any |-> TRUE]] : x \in mem, y \in mem }

\* ------------------------------------------------------------------- RAKP 1
R1Enc(r) == <<r.tag, 0, 0, 0>> \o r.sid \o r.rnd \o <<r.priv + (IF r.lookup THEN 0 ELSE 16), 0, 0, Len(r.uname)>> \o r.uname
R1Fields(r) == [Tag |-> r.tag, ManagedSystemSessionID |-> r.sid, RemoteConsoleRandom |-> r.rnd, PrivilegeLevelLookup |-> r.lookup,
                MaxPrivilegeLevel |-> r.priv, Username |-> r.uname]
Rakp1Vectors ==
  UNION { LET r == [tag |-> (n * 17 + p) % 256, sid |-> RBytes(n, 4), rnd |-> RBytes(n + 5, 16), priv |-> p, lookup |-> lk,
                    \* printable ASCII; arbitrary high bytes; valid two-byte UTF-8 sequences (fewer characters than bytes)
                    uname |-> [i \in 1..n |-> CASE hi = 0 -> 33 + ((i * 7 + n) % 90) [] hi = 1 -> 128 + ((i * 7 + n) % 128)
                                               [] OTHER -> IF (n % 2 = 1 /\ i = 1) THEN 65 ELSE IF (i + (n % 2)) % 2 = 1 THEN 195 ELSE 169]] IN
          { [id |-> "RAKP1/ser/" \o ToString(n) \o "-" \o ToString(p) \o (IF lk THEN "L" ELSE "N") \o ToString(hi), prop |-> IF n > 16 THEN "C06" ELSE "C08", kind |-> "serialize", layer |-> "RAKPMessage1",
             class |-> IF n > 16 THEN "username-too-long" ELSE "ok", fields |-> R1Fields(r), payload |-> <<>>,
             exp |-> IF n > 16 THEN [err |-> TRUE] ELSE [err |-> FALSE, bytes |-> R1Enc(r)]] }
          \cup (IF n > 16 THEN {} ELSE
                { [id |-> "RAKP1/dec/" \o ToString(n) \o "-" \o ToString(p) \o (IF lk THEN "L" ELSE "N") \o ToString(hi), prop |-> "C08", kind |-> "decode", layer |-> "RAKPMessage1",
                   class |-> "ok", bytes |-> R1Enc(r), exp |-> [err |-> FALSE, value |-> Without(R1Fields(r), {"Username"})]] })
          : n \in 0..32, p \in {0, 1, 4, 5, 15}, lk \in BOOLEAN, hi \in 0..2 }
  \* lengths around every multiple of 256 (a length kept in one byte wraps): all must be rejected
  \cup { LET r == [tag |-> 7, sid |-> RBytes(n, 4), rnd |-> RBytes(n + 5, 16), priv |-> 4, lookup |-> TRUE, uname |-> [i \in 1..n |-> 97 + (i % 26)]] IN
         [id |-> "RAKP1/ser/long-" \o ToString(n), prop |-> "C06", kind |-> "serialize", layer |-> "RAKPMessage1", class |-> "username-too-long",
          fields |-> R1Fields(r), payload |-> <<>>, exp |-> [err |-> TRUE]]
         : n \in {33, 64, 127, 128, 200, 254, 255, 256, 257, 260, 264, 271, 272, 273, 300, 511, 512, 513, 520, 528, 529, 768, 1024, 1030, 4096, 4100, 65536, 65540} }

\* ------------------------------------------------------- set-up responses (C07)
OsrEnc(o) == <<o.tag, 0, o.priv, 0>> \o o.sidM \o o.sidC \o AlgPayload(0, o.a) \o AlgPayload(1, o.i) \o AlgPayload(2, o.c)
SetupVectors ==
  { LET o == [tag |-> Rnd(k, 1), priv |-> k % 6, sidM |-> RBytes(k, 4), sidC |-> RBytes(k + 1, 4), a |-> k % 4, i |-> (k \div 4) % 5, c |-> (k \div 20) % 3] IN
    [id |-> "OSR/dec/" \o ToString(k), prop |-> "C07", kind |-> "decode", layer |-> "OpenSessionRsp", class |-> "ok",
     bytes |-> OsrEnc(o),
     exp |-> [err |-> FALSE, value |-> [Tag |-> o.tag, Status |-> 0, MaxPrivilegeLevel |-> o.priv, RemoteConsoleSessionID |-> o.sidM, ManagedSystemSessionID |-> o.sidC,
                                        AuthenticationPayload |-> [Wildcard |-> FALSE, Algorithm |-> o.a], IntegrityPayload |-> [Wildcard |-> FALSE, Algorithm |-> o.i],
                                        ConfidentialityPayload |-> [Wildcard |-> FALSE, Algorithm |-> o.c]]]] : k \in 0..59 }
  \cup { [id |-> "OSR/status/" \o ToString(s), prop |-> "C07", kind |-> "decode", layer |-> "OpenSessionRsp", class |-> "error-status",
          \* (the 7-byte error form asserted by the repository's own captured packet: tag, status, reserved, console session ID)
          bytes |-> <<7, s, 0, 9, 8, 7, 6>>, exp |-> [err |-> FALSE, value |-> [Tag |-> 7, Status |-> s, RemoteConsoleSessionID |-> <<9, 8, 7, 6>>, ManagedSystemSessionID |-> <<0, 0, 0, 0>>]]] : s \in 1..255 }
  \cup { [id |-> "OSR/short/" \o ToString(n), prop |-> "C07", kind |-> "decode", layer |-> "OpenSessionRsp", class |-> "short-status-ok",
          bytes |-> Take(OsrEnc([tag |-> 1, priv |-> 4, sidM |-> <<1, 2, 3, 4>>, sidC |-> <<5, 6, 7, 8>>, a |-> 1, i |-> 1, c |-> 1]), n), exp |-> [err |-> TRUE]] : n \in {0} \cup (2..35) }
  \cup UNION { LET rc == RBytes(k + 9, 16)  g == RBytes(k + 10, 16)  au == RBytes(k + 11, dl) IN
               { [id |-> "RAKP2/dec/" \o ToString(dl) \o "/" \o ToString(k), prop |-> "C07", kind |-> "decode", layer |-> "RAKPMessage2", class |-> "ok",
                  bytes |-> <<k, 0, 0, 0, 4, 3, 2, 1>> \o rc \o g \o au,
                  exp |-> [err |-> FALSE, value |-> [Tag |-> k, Status |-> 0, RemoteConsoleSessionID |-> <<4, 3, 2, 1>>, ManagedSystemRandom |-> rc, ManagedSystemGUID |-> g, AuthCode |-> au]]] }
               : dl \in {0, 16, 20, 32}, k \in 0..7 }
  \cup { [id |-> "RAKP2/short/" \o ToString(n), prop |-> "C07", kind |-> "decode", layer |-> "RAKPMessage2", class |-> "short-status-ok",
          bytes |-> Take(<<1, 0, 0, 0, 4, 3, 2, 1>> \o RBytes(3, 32), n), exp |-> [err |-> TRUE]] : n \in 0..39 }
  \cup { [id |-> "RAKP2/status/" \o ToString(s), prop |-> "C07", kind |-> "decode", layer |-> "RAKPMessage2", class |-> "error-status",
          bytes |-> <<3, s, 0, 0, 4, 3, 2, 1>>, exp |-> [err |-> FALSE, value |-> [Tag |-> 3, Status |-> s, RemoteConsoleSessionID |-> <<4, 3, 2, 1>>, AuthCode |-> <<>>]]] : s \in 1..255 }
  \cup UNION { { [id |-> "RAKP4/dec/" \o ToString(dl) \o "/" \o ToString(k), prop |-> "C07", kind |-> "decode", layer |-> "RAKPMessage4", class |-> "ok",
                  bytes |-> <<k, 0, 0, 0, 4, 3, 2, 1>> \o RBytes(k + 20, dl),
                  exp |-> [err |-> FALSE, value |-> [Tag |-> k, Status |-> 0, RemoteConsoleSessionID |-> <<4, 3, 2, 1>>, ICV |-> RBytes(k + 20, dl)]]] } : dl \in {0, 12, 16}, k \in 0..7 }
  \cup { [id |-> "RAKP4/short/" \o ToString(n), prop |-> "C07", kind |-> "decode", layer |-> "RAKPMessage4", class |-> "short",
          bytes |-> Take(<<1, 0, 0, 0, 4, 3, 2>>, n), exp |-> [err |-> TRUE]] : n \in 0..7 }

\* ------------------------------------------------------- AES-128-CBC layer (13.29)
AesVectors ==
  LET lens == IF Tier = "thorough" THEN 0..200 ELSE (0..48) \cup {63, 64, 65, 100, 127, 128, 129, 199, 200} IN
  { [id |-> "AES/" \o ToString(n) \o "/" \o ToString(k), prop |-> "C08", kind |-> "aes", layer |-> "AES128CBC", class |-> "len-" \o ToString(n),
     key |-> RBytes(k + 200, 16), payload |-> RBytes(n + k, n),
     exp |-> [payload |-> RBytes(n + k, n), plain |-> RBytes(n + k, n) \o ConfPadBytes(n)]] : n \in lens, k \in 1..2 }

\* one layer value decodes a sequence of packets, as a session's confidentiality layer does: each packet is the
\* specification's encryption (IV, AES-CBC of payload + pad, evaluated with the standard library), and each must come
\* back as its own payload whatever the same layer decoded before (longer, shorter, equal, empty)
AesPacket(key, k, n) == LET iv == RBytes(k + 300, 16)  pl == RBytes(n + k + 1, n) IN
  [t |-> Cat(<< B(iv), Aes(B(key), B(iv), B(pl \o ConfPadBytes(n))) >>), payload |-> pl, padded |-> pl \o ConfPadBytes(n)]
LenSeqs == { <<300>>, <<255, 256, 257>>, <<447, 16>>, <<400, 5, 272>>, <<12, 5>>, <<0, 1, 2, 3, 4, 5, 6, 7, 8, 9, 10, 11, 12, 13, 14, 15, 16>>,
             <<16, 15, 14, 13, 12, 11, 10, 9, 8, 7, 6, 5, 4, 3, 2, 1, 0>>, <<200, 191>>, <<40, 3, 40>>, <<0, 16, 15, 0>>, <<5, 100, 5, 37, 1>>, <<63, 47, 31, 15, 0>>, <<1, 17, 33, 49>>, <<128, 16>> }
           \cup { <<a, c>> : a \in {0, 7, 15, 16, 31, 48, 90}, c \in {0, 7, 15, 16, 31, 48, 90} }
AesSeqVectors ==
  { [id |-> "AES/seq/" \o ToString(q) \o "/" \o ToString(k), prop |-> "C08", kind |-> "aesseq", layer |-> "AES128CBC", class |-> "decode-sequence",
     key |-> RBytes(k + 210, 16), packets |-> [i \in 1..Len(q) |-> AesPacket(RBytes(k + 210, 16), k * 10 + i, q[i])]] : q \in LenSeqs, k \in 1..2 }
Vectors == CASE Family = "aes" -> AesVectors \cup AesSeqVectors
             [] Family = "message" -> MsgVectors \cup MsgCorrupt \cup MsgShortSet \cup MsgReuse \cup MsgCodeOnly \cup MsgAfter
             [] Family = "wrapper" -> V2Vectors \cup V2LenCorrupt \cup V1Vectors \cup V1Reuse \cup V2Prefixes \cup V2SeqVectors
             [] Family = "setup" -> Rakp1Vectors \cup SetupVectors
ASSUME \A v \in Vectors : PrintT(<<"SCRIPT", ToJson(v)>>)
ASSUME PrintT(<<"COUNT", ToJson([n |-> Cardinality(Vectors)])>>)
=============================================================================
