package main

// Vector runner: applies TLC-generated (bytes, expected) pairs to the
// library's layers directly. It decodes, serialises and projects; it never
// interprets a wire format itself. Results go back to TLC (TraceVec.tla) with
// the expectation copied through verbatim.

import (
	"bufio"
	"crypto/hmac"
	"crypto/md5"
	"crypto/sha1"
	"crypto/sha256"
	"encoding/json"
	"flag"
	"fmt"
	"hash"
	"os"
	"reflect"
	"sync"

	"github.com/gebn/bmc/pkg/ipmi"
	"github.com/google/gopacket"
)

func init() { subcommands["vectors"] = cmdVectors }

type truncHash struct {
	hash.Hash
	n int
}

func (t truncHash) Sum(b []byte) []byte { s := t.Hash.Sum(b); return s[:len(b)+t.n] }
func (t truncHash) Size() int           { return t.n }

// integrity algorithm instances for V2Session vectors: name + key -> hash.Hash
func integHash(name string, key []byte) hash.Hash {
	switch name {
	case "sha1":
		return truncHash{hmac.New(sha1.New, key), 12}
	case "md5":
		return hmac.New(md5.New, key)
	case "sha256":
		return truncHash{hmac.New(sha256.New, key), 16}
	}
	return nil
}

// exact returns a copy with no spare capacity: an over-read panics instead of
// silently reading a neighbour's bytes.
func exact(b []byte) []byte {
	out := make([]byte, len(b))
	copy(out, b)
	return out[:len(out):len(out)]
}

// inBuffer places b at the start of a 512-byte buffer whose remainder is
// filled with `fill`, like transport.recvBuf after a longer datagram.
func inBuffer(b []byte, fill byte) []byte {
	buf := make([]byte, 512)
	for i := range buf {
		buf[i] = fill
	}
	n := copy(buf, b)
	return buf[:n]
}

func newLayer(v M) (decoder, error) {
	name := v["layer"].(string)
	switch name {
	case "V2SessionAuth":
		l := &ipmi.V2Session{IntegrityAlgorithm: integHash(v["alg"].(string), ints(v["key"]))}
		return l, nil
	case "AES128CBC":
		var k [16]byte
		copy(k[:], ints(v["key"]))
		return ipmi.NewAES128CBC(k)
	}
	ctor, ok := layerCtors[name]
	if !ok {
		return nil, fmt.Errorf("harness: unknown layer %s", name)
	}
	return ctor(), nil
}

func decodeInto(l decoder, data []byte) (res M) {
	res = M{}
	defer func() {
		if p := recover(); p != nil {
			res = M{"panic": fmt.Sprint(p)}
		}
	}()
	err := l.DecodeFromBytes(data, gopacket.NilDecodeFeedback)
	res["err"] = err != nil
	if err == nil {
		res["value"] = project(reflect.ValueOf(l))
		if bl, ok := l.(interface{ LayerPayload() []byte }); ok {
			res["payload"] = toInts(bl.LayerPayload())
		}
	}
	return
}

func runVector(v M) (out M) {
	out = M{"id": v["id"], "prop": v["prop"], "kind": v["kind"], "layer": v["layer"]}
	if e, ok := v["exp"]; ok {
		out["exp"] = e
	}
	if c, ok := v["class"]; ok {
		out["class"] = c
	}
	defer func() {
		if p := recover(); p != nil {
			out["got"] = M{"panic": fmt.Sprint(p)}
		}
	}()
	// byte strings given as terms (AuthCodes are keyed hashes TLC can only write down, not compute)
	ev := newEnv(M{}, nil)
	if t, ok := v["bytesT"]; ok {
		v["bytes"] = anyInts(ev.eval(m(t)))
	}
	if e, ok := v["exp"].(map[string]any); ok {
		if t, ok := e["bytesT"]; ok {
			e2 := M{}
			for k, x := range e {
				if k != "bytesT" {
					e2[k] = x
				}
			}
			e2["bytes"] = anyInts(ev.eval(m(t)))
			out["exp"] = e2
		}
	}
	switch v["kind"] {
	case "decode":
		// decoded three ways: exact-capacity slice, and inside a receive buffer with two
		// different fillings; the three results must agree (no dependence on bytes beyond the datagram)
		data := ints(v["bytes"])
		var rs []M
		for _, mk := range []func() []byte{func() []byte { return exact(data) },
			func() []byte { return inBuffer(data, 0x00) }, func() []byte { return inBuffer(data, 0xA5) }} {
			l, err := newLayer(v)
			if err != nil {
				out["harnessError"] = err.Error()
				return out
			}
			rs = append(rs, decodeInto(l, mk()))
		}
		out["got"] = rs[0]
		a, _ := json.Marshal(rs[0])
		b, _ := json.Marshal(rs[1])
		c, _ := json.Marshal(rs[2])
		out["stable"] = string(a) == string(b) && string(b) == string(c)
		if out["stable"] == false {
			out["got2"], out["got3"] = rs[1], rs[2]
		}
	case "reuse":
		// decode `first` then `second` into the same value; compare with a fresh decode of `second`
		l, err := newLayer(v)
		if err != nil {
			out["harnessError"] = err.Error()
			return out
		}
		decodeInto(l, exact(ints(v["first"])))
		reused := decodeInto(l, exact(ints(v["second"])))
		f, _ := newLayer(v)
		fresh := decodeInto(f, exact(ints(v["second"])))
		out["got"] = reused
		out["fresh"] = fresh
	case "serialize":
		ctor, ok := serialCtors[v["layer"].(string)]
		if !ok {
			out["harnessError"] = "unknown serialisable layer"
			return out
		}
		l := ctor()
		if f, ok := v["fields"]; ok {
			if err := populate(reflect.ValueOf(l).Elem(), f); err != nil {
				out["harnessError"] = err.Error()
				return out
			}
		}
		if a, ok := v["alg"]; ok {
			reflect.ValueOf(l).Elem().FieldByName("IntegrityAlgorithm").Set(reflect.ValueOf(integHash(a.(string), ints(v["key"]))))
		}
		buf := gopacket.NewSerializeBuffer()
		var pl gopacket.SerializableLayer = gopacket.Payload(ints(v["payload"]))
		err := gopacket.SerializeLayers(buf, gopacket.SerializeOptions{FixLengths: true, ComputeChecksums: true}, l, pl)
		got := M{"err": err != nil}
		if err == nil {
			got["bytes"] = toInts(buf.Bytes())
		}
		// and into a buffer that has already carried a longer packet of other bytes, as a connection's buffer has:
		// SerializeBuffer.Clear() does not zero it, so every byte of the encoding must be written
		dirty := gopacket.NewSerializeBuffer()
		junk := make([]byte, 300)
		for i := range junk {
			junk[i] = 0xa5
		}
		_ = gopacket.SerializeLayers(dirty, gopacket.SerializeOptions{}, gopacket.Payload(junk))
		err2 := gopacket.SerializeLayers(dirty, gopacket.SerializeOptions{FixLengths: true, ComputeChecksums: true}, l, pl)
		got["errReused"] = err2 != nil
		if err2 == nil {
			got["bytesReused"] = toInts(dirty.Bytes())
		}
		out["got"] = got
	case "func":
		// exported pure functions of the library, named by the vector
		got := M{}
		switch v["name"] {
		case "AnalogParse":
			ps, err := ipmi.AnalogDataFormat(num(v["format"])).Parser()
			got["err"] = err != nil
			if err == nil {
				got["value"] = int(ps.Parse(byte(num(v["raw"]))))
			}
		case "StringDecode":
			d, err := ipmi.StringEncoding(num(v["encoding"])).Decoder()
			if err != nil {
				got["err"] = true
				break
			}
			str, consumed, err := d.Decode(exact(ints(v["bytes"])), num(v["chars"]))
			got["err"] = err != nil
			if err == nil {
				got["chars"] = project(reflect.ValueOf(str))
				got["consumed"] = consumed
			}
		case "EntityInstance":
			e := ipmi.EntityInstance(num(v["v"]))
			got["err"] = false
			got["system"] = e.IsSystemRelative()
			got["device"] = e.IsDeviceRelative()
		default:
			out["harnessError"] = fmt.Sprint("unknown func ", v["name"])
			return out
		}
		out["got"] = got
	case "aes":
		// serialise with the library's AES-128-CBC layer (a fresh buffer, then the same buffer reused, as a
		// connection does), decrypt independently with the standard library, and decode with a fresh layer
		var k [16]byte
		copy(k[:], ints(v["key"]))
		payload := ints(v["payload"])
		got := M{}
		buf := gopacket.NewSerializeBuffer()
		for round, name := range []string{"fresh", "reused"} {
			l, err := ipmi.NewAES128CBC(k)
			if err != nil {
				out["harnessError"] = err.Error()
				return out
			}
			if round == 1 {
				buf.Clear()
			}
			err = gopacket.SerializeLayers(buf, gopacket.SerializeOptions{FixLengths: true, ComputeChecksums: true}, l, gopacket.Payload(payload))
			r := M{"err": err != nil}
			if err == nil {
				b := append([]byte(nil), buf.Bytes()...)
				r["len"] = len(b)
				if len(b) >= 32 && len(b)%16 == 0 {
					r["iv"] = toInts(b[:16])
					r["plain"] = toInts(ev.eval(M{"op": "aescbcdec", "key": M{"op": "bytes", "v": v["key"]},
						"iv": M{"op": "bytes", "v": anyInts(b[:16])}, "ct": M{"op": "bytes", "v": anyInts(b[16:])}}))
				}
				d, _ := ipmi.NewAES128CBC(k)
				dr := decodeInto(d, exact(b))
				r["decErr"] = dr["err"]
				if p, ok := dr["payload"]; ok {
					r["decPayload"] = p
				}
				if pn, ok := dr["panic"]; ok {
					r["panic"] = pn
				}
			}
			got[name] = r
		}
		out["got"] = got
	case "v2seq":
		// one wrapper value with one keyed integrity hash serialises and decodes a sequence of packets
		l := &ipmi.V2Session{IntegrityAlgorithm: integHash(v["alg"].(string), ints(v["key"]))}
		steps := v["steps"].([]any)
		got := make([]any, 0, len(steps))
		slim := make([]any, 0, len(steps))
		for _, st := range steps {
			s := m(st)
			exp := m(s["exp"])
			if t, ok := exp["bytesT"]; ok {
				exp = M{"err": exp["err"], "bytes": anyInts(ev.eval(m(t)))}
			}
			slim = append(slim, M{"op": s["op"], "exp": exp})
			func() {
				var r M
				defer func() {
					if p := recover(); p != nil {
						r = M{"panic": fmt.Sprint(p)}
					}
					got = append(got, r)
				}()
				if s["op"] == "decode" {
					r = decodeInto(l, exact(ev.eval(m(s["bytesT"]))))
					return
				}
				if err := populate(reflect.ValueOf(l).Elem(), s["fields"]); err != nil {
					panic("harness: " + err.Error())
				}
				buf := gopacket.NewSerializeBuffer()
				err := gopacket.SerializeLayers(buf, gopacket.SerializeOptions{FixLengths: true, ComputeChecksums: true}, l, gopacket.Payload(ints(s["payload"])))
				r = M{"err": err != nil}
				if err == nil {
					r["bytes"] = toInts(buf.Bytes())
				}
			}()
		}
		out["steps"] = slim
		out["got"] = got
	case "aesseq":
		// one AES-128-CBC layer value decodes each packet in turn (the specification's encryption of each payload)
		var k [16]byte
		copy(k[:], ints(v["key"]))
		d, err := ipmi.NewAES128CBC(k)
		if err != nil {
			out["harnessError"] = err.Error()
			return out
		}
		pkts := v["packets"].([]any)
		got := make([]any, 0, len(pkts))
		for _, p := range pkts {
			b := ev.eval(m(p.(map[string]any)["t"]))
			got = append(got, decodeInto(d, exact(b)))
		}
		// and one layer value serialises each payload in turn (a session's layer lives as long as the session);
		// every packet is decrypted independently with its own IV
		ser := make([]any, 0, len(pkts))
		if s, err := ipmi.NewAES128CBC(k); err == nil {
			buf := gopacket.NewSerializeBuffer()
			for _, p := range pkts {
				ser = append(ser, func() (r M) {
					r = M{}
					defer func() {
						if x := recover(); x != nil {
							r["panic"] = fmt.Sprint(x)
						}
					}()
					buf.Clear()
					err := gopacket.SerializeLayers(buf, gopacket.SerializeOptions{FixLengths: true, ComputeChecksums: true}, s, gopacket.Payload(ints(p.(map[string]any)["payload"])))
					r["err"] = err != nil
					if err == nil {
						b := append([]byte(nil), buf.Bytes()...)
						if len(b) >= 32 && len(b)%16 == 0 {
							r["plain"] = toInts(ev.eval(M{"op": "aescbcdec", "key": M{"op": "bytes", "v": v["key"]},
								"iv": M{"op": "bytes", "v": anyInts(b[:16])}, "ct": M{"op": "bytes", "v": anyInts(b[16:])}}))
						} else {
							r["plain"] = []any{}
							r["badlen"] = len(b)
						}
					}
					return r
				}())
			}
		}
		out["ser"] = ser
		// the harness copies the expected payloads through without the terms
		slim := make([]any, 0, len(pkts))
		for _, p := range pkts {
			slim = append(slim, M{"payload": p.(map[string]any)["payload"], "padded": p.(map[string]any)["padded"]})
		}
		out["packets"] = slim
		out["got"] = got
	default:
		out["harnessError"] = fmt.Sprint("unknown vector kind ", v["kind"])
	}
	return out
}

func cmdVectors(args []string) {
	fs := flag.NewFlagSet("vectors", flag.ExitOnError)
	in := fs.String("in", "", "vectors ndjson")
	out := fs.String("out", "results.ndjson", "results ndjson")
	workers := fs.Int("workers", 16, "")
	shard := fs.Int("shard", 30000, "results per output file (out.N)")
	fs.Parse(args)
	_, vecs := readNdjson(*in)
	res := make([]M, len(vecs))
	var wg sync.WaitGroup
	ch := make(chan int)
	for w := 0; w < *workers; w++ {
		wg.Add(1)
		go func() {
			defer wg.Done()
			for i := range ch {
				res[i] = runVector(vecs[i])
			}
		}()
	}
	for i := range vecs {
		ch <- i
	}
	close(ch)
	wg.Wait()
	files := 0
	var w *bufio.Writer
	var f *os.File
	for i, r := range res {
		if i%*shard == 0 {
			if w != nil {
				w.Flush()
				f.Close()
			}
			f, _ = os.Create(fmt.Sprintf("%s.%d", *out, files))
			w = bufio.NewWriterSize(f, 1<<20)
			files++
		}
		b, err := json.Marshal(scrub(r))
		if err != nil {
			b, _ = json.Marshal(M{"id": r["id"], "harnessError": err.Error()})
		}
		w.Write(b)
		w.WriteByte('\n')
	}
	if w != nil {
		w.Flush()
		f.Close()
	}
	fmt.Printf("{\"vectors\":%d,\"files\":%d}\n", len(res), files)
}

func anyInts(b []byte) []any {
	o := make([]any, len(b))
	for i, x := range b {
		o[i] = float64(x)
	}
	return o
}
