package main

import (
	"bufio"
	"encoding/json"
	"flag"
	"fmt"
	"os"
	"sync"
	"time"
)

func readNdjson(path string) (hdr M, items []M) {
	f, err := os.Open(path)
	if err != nil {
		fmt.Fprintln(os.Stderr, "harness:", err)
		os.Exit(2)
	}
	defer f.Close()
	rd := bufio.NewReaderSize(f, 1<<20)
	for {
		line, err := rd.ReadBytes('\n')
		if len(line) > 1 {
			var v M
			if e := json.Unmarshal(line, &v); e != nil {
				fmt.Fprintln(os.Stderr, "harness: bad json:", e)
				os.Exit(2)
			}
			if v["header"] == true {
				hdr = v
			} else {
				items = append(items, v)
			}
		}
		if err != nil {
			break
		}
	}
	if hdr == nil {
		hdr = M{}
	}
	return
}

func cmdReplay(args []string) {
	fs := flag.NewFlagSet("replay", flag.ExitOnError)
	in := fs.String("in", "", "scripts ndjson (header line + one script per line)")
	out := fs.String("out", "trace.ndjson", "trace output (ndjson)")
	workers := fs.Int("workers", 16, "parallel scripts")
	wdog := fs.Int("watchdog", 10000, "per-call watchdog in ms")
	shard := fs.Int("shard", 0, "max events per output file (0 = single file); files are out.N")
	mflag := fs.Bool("metrics", false, "snapshot the Prometheus registry after every call (use with -workers 1)")
	fs.Parse(args)
	metricsMode = *mflag
	hdr, scripts := readNdjson(*in)
	traces := make([][]M, len(scripts))
	var wg sync.WaitGroup
	ch := make(chan int)
	for w := 0; w < *workers; w++ {
		wg.Add(1)
		go func() {
			defer wg.Done()
			for i := range ch {
				traces[i] = runScript(hdr, scripts[i], time.Duration(*wdog)*time.Millisecond)
			}
		}()
	}
	t0 := time.Now()
	for i := range scripts {
		ch <- i
	}
	close(ch)
	wg.Wait()
	n, files := writeTraces(traces, *out, *shard)
	fmt.Printf("{\"scripts\":%d,\"events\":%d,\"files\":%d,\"elapsed_ms\":%d}\n", len(scripts), n, files, time.Since(t0).Milliseconds())
}

func writeTraces(traces [][]M, out string, shard int) (events, files int) {
	var w *bufio.Writer
	var f *os.File
	cur := 0
	open := func() {
		name := out
		if shard > 0 {
			name = fmt.Sprintf("%s.%d", out, files)
		}
		var err error
		f, err = os.Create(name)
		if err != nil {
			fmt.Fprintln(os.Stderr, "harness:", err)
			os.Exit(2)
		}
		w = bufio.NewWriterSize(f, 1<<20)
		files++
		cur = 0
	}
	closef := func() {
		w.Flush()
		f.Close()
	}
	open()
	for i, tr := range traces {
		if shard > 0 && cur > 0 && cur+len(tr) > shard {
			closef()
			open()
		}
		for _, ev := range tr {
			ev["script"] = i
			b, err := json.Marshal(ev)
			if err != nil {
				b, _ = json.Marshal(M{"ev": "harnessError", "text": err.Error(), "script": i})
			}
			w.Write(b)
			w.WriteByte('\n')
			events++
			cur++
		}
	}
	closef()
	return
}

func main() {
	if len(os.Args) < 2 {
		fmt.Fprintln(os.Stderr, "usage: bmcreplay replay|vectors|udp|conc ...")
		os.Exit(2)
	}
	switch os.Args[1] {
	case "replay":
		cmdReplay(os.Args[2:])
	default:
		if f, ok := subcommands[os.Args[1]]; ok {
			f(os.Args[2:])
			return
		}
		fmt.Fprintln(os.Stderr, "unknown subcommand", os.Args[1])
		os.Exit(2)
	}
}

var subcommands = map[string]func([]string){}
