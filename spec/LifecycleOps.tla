---------------------------- MODULE LifecycleOps ----------------------------
(* The operations of one connection's life and when each is legal, as pure
   definitions shared by the state machine (Lifecycle.tla, checked by TLC) and
   by the script generator (GenHandshake.tla, family "lifecyclex"), which turns
   every behaviour of the state machine of a given length into a script for
   the real library.

     closed (no session):           openOK | openFailPw | openFailStatus
     open   (a session):            cmd | cmdLost | closeOK | closeErr | closeLost
     failed (a Close that failed):  openOK | closeAgainOK | closeAgainLost

   A Close counts as a close whatever the BMC answered (or did not answer): the
   gauge goes down.  The caller may try the Close again on the same session
   value (the request continues the session's sequence numbers), and every
   such call is counted as another close - opens minus closes, literally. *)
EXTENDS Integers, Sequences

OpsClosed == <<"openOK", "openFailPw", "openFailStatus">>
OpsOpen   == <<"cmd", "cmdLost", "closeOK", "closeErr", "closeLost">>
OpsFailed == <<"openOK", "closeAgainOK", "closeAgainLost">>
Legal(st) == CASE st = "open" -> OpsOpen [] st = "failed" -> OpsFailed [] OTHER -> OpsClosed
IsClose(op) == op \in {"closeOK", "closeErr", "closeLost", "closeAgainOK", "closeAgainLost"}
IsReClose(op) == op \in {"closeAgainOK", "closeAgainLost"}
IsOpenTry(op) == op \in {"openOK", "openFailPw", "openFailStatus"}
After(st, op) == CASE op = "openOK" -> "open"
                   [] op \in {"closeOK", "closeAgainOK"} -> "closed"
                   [] op \in {"closeErr", "closeLost", "closeAgainLost"} -> "failed"
                   [] OTHER -> st
\* what the call returns to the caller
Fails(op) == op \in {"openFailPw", "openFailStatus", "cmdLost", "closeErr", "closeLost", "closeAgainLost"}

\* every sequence of n operations that is legal from the state `open`
RECURSIVE Paths(_, _)
Paths(open, n) ==
  IF n = 0 THEN {<<>>}
  ELSE LET ops == Legal(open) IN
       UNION { { <<ops[i]>> \o p : p \in Paths(After(open, ops[i]), n - 1) } : i \in 1..Len(ops) }
RECURSIVE OpenAfter(_, _)
OpenAfter(open, p) == IF p = <<>> THEN open ELSE OpenAfter(After(open, Head(p)), Tail(p))
\* a short name for a path (script identifiers)
Code(op) == CASE op = "openOK" -> "O" [] op = "openFailPw" -> "p" [] op = "openFailStatus" -> "s" [] op = "cmd" -> "c"
              [] op = "cmdLost" -> "l" [] op = "closeOK" -> "X" [] op = "closeErr" -> "e" [] op = "closeLost" -> "x"
              [] op = "closeAgainOK" -> "A" [] op = "closeAgainLost" -> "a"
RECURSIVE Name(_)
Name(p) == IF p = <<>> THEN "" ELSE Code(Head(p)) \o Name(Tail(p))
RECURSIVE Weight(_)
Weight(p) == IF p = <<>> THEN 0 ELSE (Len(p) * (CASE Head(p) = "openOK" -> 1 [] Head(p) = "openFailPw" -> 2 [] Head(p) = "openFailStatus" -> 3 [] Head(p) = "cmd" -> 5
                                                [] Head(p) = "cmdLost" -> 7 [] Head(p) = "closeOK" -> 11 [] Head(p) = "closeErr" -> 13 [] Head(p) = "closeLost" -> 17 [] Head(p) = "closeAgainOK" -> 19 [] OTHER -> 23)) + Weight(Tail(p))
=============================================================================
