---------------------------- MODULE LifecycleOps ----------------------------
(* The operations of one connection's life and when each is legal, as pure
   definitions shared by the state machine (Lifecycle.tla, checked by TLC) and
   by the script generator (GenHandshake.tla, family "lifecyclex"), which turns
   every behaviour of the state machine of a given length into a script for
   the real library.

     closed (no session):  openOK | openFailPw | openFailStatus
     open   (a session):   cmd | cmdLost | closeOK | closeErr | closeLost

   A close ends the session whatever the BMC answered (or did not answer): the
   library has nothing left to do with it, and says so in its gauge. *)
EXTENDS Integers, Sequences

OpsClosed == <<"openOK", "openFailPw", "openFailStatus">>
OpsOpen   == <<"cmd", "cmdLost", "closeOK", "closeErr", "closeLost">>
Legal(open) == IF open THEN OpsOpen ELSE OpsClosed
IsClose(op) == op \in {"closeOK", "closeErr", "closeLost"}
IsOpenTry(op) == op \in {"openOK", "openFailPw", "openFailStatus"}
After(open, op) == IF op = "openOK" THEN TRUE ELSE IF IsClose(op) THEN FALSE ELSE open
\* what the call returns to the caller
Fails(op) == op \in {"openFailPw", "openFailStatus", "cmdLost", "closeErr", "closeLost"}

\* every sequence of n operations that is legal from the state `open`
RECURSIVE Paths(_, _)
Paths(open, n) ==
  IF n = 0 THEN {<<>>}
  ELSE LET ops == Legal(open) IN
       UNION { { <<ops[i]>> \o p : p \in Paths(After(open, ops[i]), n - 1) } : i \in 1..Len(ops) }
RECURSIVE OpenAfter(_, _)
OpenAfter(open, p) == IF p = <<>> THEN open ELSE OpenAfter(After(open, Head(p)), Tail(p))
\* a short name for a path (script identifiers)
Code(op) == CASE op = "openOK" -> "O" [] op = "openFailPw" -> "p" [] op = "openFailStatus" -> "s" [] op = "cmd" -> "c"
              [] op = "cmdLost" -> "l" [] op = "closeOK" -> "X" [] op = "closeErr" -> "e" [] op = "closeLost" -> "x"
RECURSIVE Name(_)
Name(p) == IF p = <<>> THEN "" ELSE Code(Head(p)) \o Name(Tail(p))
RECURSIVE Weight(_)
Weight(p) == IF p = <<>> THEN 0 ELSE (Len(p) * (CASE Head(p) = "openOK" -> 1 [] Head(p) = "openFailPw" -> 2 [] Head(p) = "openFailStatus" -> 3 [] Head(p) = "cmd" -> 5
                                                [] Head(p) = "cmdLost" -> 7 [] Head(p) = "closeOK" -> 11 [] Head(p) = "closeErr" -> 13 [] OTHER -> 17)) + Weight(Tail(p))
=============================================================================
