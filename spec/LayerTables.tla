---------------------------- MODULE LayerTables ----------------------------
(* Byte/bit tables of the fixed-layout IPMI v2.0 and DCMI requests and
   responses the library implements, transcribed from the specifications
   (section numbers given).  Field names are the library's exported struct
   field names, so that Layout!Project is directly comparable with the
   decoded (or populated) Go value. *)
EXTENDS Layout

\* ================================================================ responses
\* 20.1 Get Device ID (response data after the completion code)
GetDeviceIDRsp == <<
  U8("ID"),
  BitsItem(<< Bool("ProvidesSDRs", 7), Res(6, 4), UInt("Revision", 3, 0) >>),
  BitsItem(<< NBool("Available", 7), UInt("MajorFirmwareRevision", 6, 0) >>),      \* bit 7 = 0: normal operation
  Bcd("MinorFirmwareRevision"),
  BitsItem(<< UInt("MinorIPMIVersion", 7, 4), UInt("MajorIPMIVersion", 3, 0) >>), \* BCD, least significant digit in 7:4
  BitsItem(<< Bool("SupportsChassisDevice", 7), Bool("SupportsBridgeDevice", 6), Bool("SupportsIPMBEventGeneratorDevice", 5),
              Bool("SupportsIPMBEventReceiverDevice", 4), Bool("SupportsFRUInventoryDevice", 3), Bool("SupportsSELDevice", 2),
              Bool("SupportsSDRRepositoryDevice", 1), Bool("SupportsSensorDevice", 0) >>),
  LE24E("Manufacturer"), LE16F("Product"), Raw("AuxiliaryFirmwareRevision", 4) >>
\* 28.2 Get Chassis Status (the 4th byte, front panel button capabilities, is optional)
GetChassisStatusRsp3 == <<
  BitsItem(<< Res(7, 7), UInt("PowerRestorePolicy", 6, 5), Bool("PowerControlFault", 4), Bool("PowerFault", 3), Bool("Interlock", 2),
              Bool("PowerOverload", 1), Bool("PoweredOn", 0) >>),
  BitsItem(<< Res(7, 5), Bool("PoweredOnByIPMI", 4), Bool("LastPowerDownFault", 3), Bool("LastPowerDownInterlock", 2),
              Bool("LastPowerDownOverload", 1), Bool("LastPowerDownSupplyFailure", 0) >>),
  BitsItem(<< Res(7, 7), Bool("identifySupported", 6), UInt("identifyState", 5, 4), Bool("CoolingFault", 3), Bool("DriveFault", 2),
              Bool("Lockout", 1), Bool("Intrusion", 0) >>) >>
GetChassisStatusRsp4 == GetChassisStatusRsp3 \o <<
  BitsItem(<< Bool("StandbyButtonDisableAllowed", 7), Bool("DiagnosticInterruptButtonDisableAllowed", 6), Bool("ResetButtonDisableAllowed", 5),
              Bool("PowerOffButtonDisableAllowed", 4), Bool("StandbyButtonDisabled", 3), Bool("DiagnosticInterruptButtonDisabled", 2),
              Bool("ResetButtonDisabled", 1), Bool("PowerOffButtonDisabled", 0) >>) >>
\* 22.14 Get System GUID
GetSystemGUIDRsp == << Raw("GUID", 16) >>
\* 22.13 Get Channel Authentication Capabilities
GetChannelAuthenticationCapabilitiesRsp == <<
  U8("Channel"),
  BitsItem(<< Bool("ExtendedCapabilities", 7), Res(6, 6), Bool("AuthenticationTypeOEM", 5), Bool("AuthenticationTypePassword", 4), Res(3, 3),
              Bool("AuthenticationTypeMD5", 2), Bool("AuthenticationTypeMD2", 1), Bool("AuthenticationTypeNone", 0) >>),
  BitsItem(<< Res(7, 6), Bool("TwoKeyLogin", 5), Bool("PerMessageAuthentication", 4), Bool("UserLevelAuthentication", 3),
              Bool("NonNullUsernamesEnabled", 2), Bool("NullUsernamesEnabled", 1), Bool("AnonymousLoginEnabled", 0) >>),
  BitsItem(<< Res(7, 2), Bool("SupportsV2", 1), Bool("SupportsV1", 0) >>),
  LE24E("OEM"), U8("OEMData") >>
\* 22.18 Set Session Privilege Level
SetSessionPrivilegeLevelRsp == << BitsItem(<< Res(7, 4), UInt("PrivilegeLevel", 3, 0) >>) >>
\* 33.9 Get SDR Repository Info
GetSDRRepositoryInfoRsp == <<
  BcdRev("Version"), LE16F("Records"), LE16F("FreeSpace"), LE32F("LastAddition"), LE32F("LastErase"),
  BitsItem(<< Bool("Overflow", 7), Bool("SupportsModalUpdate", 6), Bool("SupportsNonModalUpdate", 5), Res(4, 4), Bool("SupportsDelete", 3),
              Bool("SupportsPartialAdd", 2), Bool("SupportsReserve", 1), Bool("SupportsGetAllocationInformation", 0) >>) >>
\* 33.11 Reserve SDR Repository
ReserveSDRRepositoryRsp == << LE16F("ReservationID") >>
\* 33.12 Get SDR: next record ID, then the requested record bytes (payload)
GetSDRRsp == << LE16F("Next") >>
\* 43 SDR header: record ID, SDR version (BCD, tens in the low nibble), record type, remaining length
SDRHeader == << LE16F("ID"), BcdRev("Version"), U8("Type"), U8("Length") >>
\* 35.14 Get Sensor Reading (third byte: threshold comparison / discrete states, not decoded)
GetSensorReadingRsp == <<
  U8("Reading"),
  BitsItem(<< Bool("EventMessagesEnabled", 7), Bool("ScanningEnabled", 6), Bool("ReadingUnavailable", 5), Res(4, 0) >>),
  BitsItem(<< Const(7, 0, 192) >>) >>
\* 22.20 Get Session Info, full form (active session on a LAN channel)
GetSessionInfoRsp18 == <<
  U8("Handle"), BitsItem(<< Res(7, 6), UInt("Max", 5, 0) >>), BitsItem(<< Res(7, 6), UInt("Active", 5, 0) >>),
  BitsItem(<< Res(7, 6), UInt("UserID", 5, 0) >>), BitsItem(<< Res(7, 4), UInt("PrivilegeLevel", 3, 0) >>),
  BitsItem(<< UInt("protocol", 7, 4), UInt("Channel", 3, 0) >>),
  Raw("ip4", 4), Raw("MAC", 6), LE16F("Port") >>
\* DCMI 6.6.1 Get Power Reading (after the group extension byte)
GetPowerReadingRsp == <<
  LE16F("Instantaneous"), LE16F("Min"), LE16F("Max"), LE16F("Avg"), LE32F("Timestamp"), LE32F("periodMs"),
  BitsItem(<< Res(7, 7), Bool("Active", 6), Res(5, 0) >>) >>

\* ================================================================= requests
\* 22.13
GetChannelAuthenticationCapabilitiesReq == <<
  BitsItem(<< Bool("ExtendedData", 7), Res(6, 4), UInt("Channel", 3, 0) >>), BitsItem(<< Res(7, 4), UInt("MaxPrivilegeLevel", 3, 0) >>) >>
\* 22.15: channel, payload type, 80h (list by cipher suite) + list index
GetChannelCipherSuitesReq == <<
  BitsItem(<< Res(7, 4), UInt("Channel", 3, 0) >>), BitsItem(<< Res(7, 6), UInt("PayloadType", 5, 0) >>),
  BitsItem(<< Const(7, 7, 1), Res(6, 6), UInt("ListIndex", 5, 0) >>) >>
\* 22.18
SetSessionPrivilegeLevelReq == << BitsItem(<< Res(7, 4), UInt("PrivilegeLevel", 3, 0) >>) >>
\* 22.19 Close Session: session ID (a handle follows only when the ID is zero)
CloseSessionReq == << LE32F("ID") >>
\* 28.3
ChassisControlReq == << BitsItem(<< Res(7, 4), UInt("ChassisControl", 3, 0) >>) >>
\* 33.12
GetSDRReq == << LE16F("ReservationID"), LE16F("RecordID"), U8("Offset"), U8("Length") >>
\* 35.14
GetSensorReadingReq == << U8("Number") >>
\* DCMI 6.5.2 Get DCMI Sensor Info: sensor type, entity ID, entity instance (0 = all), instance start
GetDCMISensorInfoReq == << U8("Type"), U8("Entity"), U8("Instance"), U8("InstanceStart") >>

Tables == [GetDeviceIDRsp |-> GetDeviceIDRsp, GetChassisStatusRsp3 |-> GetChassisStatusRsp3, GetChassisStatusRsp4 |-> GetChassisStatusRsp4,
           GetSystemGUIDRsp |-> GetSystemGUIDRsp, GetChannelAuthenticationCapabilitiesRsp |-> GetChannelAuthenticationCapabilitiesRsp,
           SetSessionPrivilegeLevelRsp |-> SetSessionPrivilegeLevelRsp, GetSDRRepositoryInfoRsp |-> GetSDRRepositoryInfoRsp,
           ReserveSDRRepositoryRsp |-> ReserveSDRRepositoryRsp, GetSDRRsp |-> GetSDRRsp, SDRHeader |-> SDRHeader,
           GetSensorReadingRsp |-> GetSensorReadingRsp, GetSessionInfoRsp18 |-> GetSessionInfoRsp18, GetPowerReadingRsp |-> GetPowerReadingRsp]
=============================================================================
