---- MODULE MCCipherSelect_TTrace_1790847043 ----
EXTENDS Sequences, TLCExt, MCCipherSelect, Toolbox, Naturals, TLC

_expression ==
    LET MCCipherSelect_TEExpression == INSTANCE MCCipherSelect_TEExpression
    IN MCCipherSelect_TEExpression!expression
----

_trace ==
    LET MCCipherSelect_TETrace == INSTANCE MCCipherSelect_TETrace
    IN MCCipherSelect_TETrace!trace
----

_inv ==
    ~(
        TLCGet("level") = Len(_TETrace)
        /\
        acc = (<<>>)
        /\
        result = ([ok |-> TRUE, v |-> <<>>])
        /\
        corrupt = ("none")
        /\
        pc = ("done")
        /\
        nreq = (1)
        /\
        data = (<<>>)
        /\
        recs = (<<>>)
        /\
        idx = (0)
    )
----

_init ==
    /\ corrupt = _TETrace[1].corrupt
    /\ recs = _TETrace[1].recs
    /\ pc = _TETrace[1].pc
    /\ data = _TETrace[1].data
    /\ acc = _TETrace[1].acc
    /\ nreq = _TETrace[1].nreq
    /\ result = _TETrace[1].result
    /\ idx = _TETrace[1].idx
----

_next ==
    /\ \E i,j \in DOMAIN _TETrace:
        /\ \/ /\ j = i + 1
              /\ i = TLCGet("level")
        /\ corrupt  = _TETrace[i].corrupt
        /\ corrupt' = _TETrace[j].corrupt
        /\ recs  = _TETrace[i].recs
        /\ recs' = _TETrace[j].recs
        /\ pc  = _TETrace[i].pc
        /\ pc' = _TETrace[j].pc
        /\ data  = _TETrace[i].data
        /\ data' = _TETrace[j].data
        /\ acc  = _TETrace[i].acc
        /\ acc' = _TETrace[j].acc
        /\ nreq  = _TETrace[i].nreq
        /\ nreq' = _TETrace[j].nreq
        /\ result  = _TETrace[i].result
        /\ result' = _TETrace[j].result
        /\ idx  = _TETrace[i].idx
        /\ idx' = _TETrace[j].idx

\* Uncomment the ASSUME below to write the states of the error trace
\* to the given file in Json format. Note that you can pass any tuple
\* to `JsonSerialize`. For example, a sub-sequence of _TETrace.
    \* ASSUME
    \*     LET J == INSTANCE Json
    \*         IN J!JsonSerialize("MCCipherSelect_TTrace_1790847043.json", _TETrace)

=============================================================================

 Note that you can extract this module `MCCipherSelect_TEExpression`
  to a dedicated file to reuse `expression` (the module in the 
  dedicated `MCCipherSelect_TEExpression.tla` file takes precedence 
  over the module `MCCipherSelect_TEExpression` below).

---- MODULE MCCipherSelect_TEExpression ----
EXTENDS Sequences, TLCExt, MCCipherSelect, Toolbox, Naturals, TLC

expression == 
    [
        \* To hide variables of the `MCCipherSelect` spec from the error trace,
        \* remove the variables below.  The trace will be written in the order
        \* of the fields of this record.
        corrupt |-> corrupt
        ,recs |-> recs
        ,pc |-> pc
        ,data |-> data
        ,acc |-> acc
        ,nreq |-> nreq
        ,result |-> result
        ,idx |-> idx
        
        \* Put additional constant-, state-, and action-level expressions here:
        \* ,_stateNumber |-> _TEPosition
        \* ,_corruptUnchanged |-> corrupt = corrupt'
        
        \* Format the `corrupt` variable as Json value.
        \* ,_corruptJson |->
        \*     LET J == INSTANCE Json
        \*     IN J!ToJson(corrupt)
        
        \* Lastly, you may build expressions over arbitrary sets of states by
        \* leveraging the _TETrace operator.  For example, this is how to
        \* count the number of times a spec variable changed up to the current
        \* state in the trace.
        \* ,_corruptModCount |->
        \*     LET F[s \in DOMAIN _TETrace] ==
        \*         IF s = 1 THEN 0
        \*         ELSE IF _TETrace[s].corrupt # _TETrace[s-1].corrupt
        \*             THEN 1 + F[s-1] ELSE F[s-1]
        \*     IN F[_TEPosition - 1]
    ]

=============================================================================



Parsing and semantic processing can take forever if the trace below is long.
 In this case, it is advised to uncomment the module below to deserialize the
 trace from a generated binary file.

\*
\*---- MODULE MCCipherSelect_TETrace ----
\*EXTENDS IOUtils, MCCipherSelect, TLC
\*
\*trace == IODeserialize("MCCipherSelect_TTrace_1790847043.bin", TRUE)
\*
\*=============================================================================
\*

---- MODULE MCCipherSelect_TETrace ----
EXTENDS MCCipherSelect, TLC

trace == 
    <<
    ([acc |-> <<>>,result |-> [ok |-> FALSE, v |-> <<>>],corrupt |-> "none",pc |-> "fetch",nreq |-> 0,data |-> <<>>,recs |-> <<>>,idx |-> 0]),
    ([acc |-> <<>>,result |-> [ok |-> FALSE, v |-> <<>>],corrupt |-> "none",pc |-> "parse",nreq |-> 1,data |-> <<>>,recs |-> <<>>,idx |-> 0]),
    ([acc |-> <<>>,result |-> [ok |-> TRUE, v |-> <<>>],corrupt |-> "none",pc |-> "done",nreq |-> 1,data |-> <<>>,recs |-> <<>>,idx |-> 0])
    >>
----


=============================================================================

---- CONFIG MCCipherSelect_TTrace_1790847043 ----
CONSTANTS
    Universe <- U5
    MaxRecs = 3
    Corruptions <- CorrAll
    G_ShortStop = TRUE
    G_Concat = FALSE

INVARIANT
    _inv

CHECK_DEADLOCK
    \* CHECK_DEADLOCK off because of PROPERTY or INVARIANT above.
    FALSE

INIT
    _init

NEXT
    _next

CONSTANT
    _TETrace <- _trace

ALIAS
    _expression
=============================================================================
\* Generated on Thu Oct 01 09:30:45 UTC 2026