SPECIFICATION Spec
CONSTANTS InSession = @INSESSION@  Cmds <- @CMDS@  MaxCalls = @MAXCALLS@  MaxAttempts = @MAXATT@  EnvCodes <- @CODES@ DupCodes <- @DUPCODES@ StaleCodes <- CodesOkErr NeedsBody <- NeedsBodyDef Refused <- RefusedDef  EnvKinds <- @KINDS@
  G_Flag = TRUE G_Sid = TRUE G_Match = TRUE G_Rebuild = TRUE G_PreInc = TRUE G_Temp = TRUE G_Terminal = TRUE G_SeqAfterBuild = TRUE
  AuthNum = @AUTH@  IntegNum = @INTEG@
INVARIANT Emit
CHECK_DEADLOCK FALSE
