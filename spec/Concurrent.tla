----------------------------- MODULE Concurrent -----------------------------
(* Independent connections driven concurrently (C19).  N connections, each with
   its own state (layers, buffers, sequence numbers, socket queue - abstracted
   to an accumulator over the steps of its own workload), over package-level
   tables that only initialisation writes.  Any interleaving must leave every
   connection with exactly the result of running its workload alone.

   G_Isolated = FALSE models a step that goes through shared mutable state (a
   package-level scratch buffer, an aliased default list): the mutant config
   shows the invariant is not vacuous. *)
EXTENDS Integers, Sequences, TLC

CONSTANTS N, K, G_Isolated

VARIABLES pc,      \* pc[i]: steps of connection i done so far
          loc,     \* loc[i]: connection-local accumulator
          shared,  \* package-level state
          tmp      \* value a non-isolated step parked in shared state
vars == <<pc, loc, shared, tmp>>

Work(i, k) == i * 10 + k                    \* the k-th operation of workload i
Mix(a, x) == (a * 31 + x) % 1009            \* order-sensitive accumulator
RECURSIVE Solo(_, _)
Solo(i, k) == IF k = 0 THEN 0 ELSE Mix(Solo(i, k - 1), Work(i, k))

Init == pc = [i \in 1..N |-> 0] /\ loc = [i \in 1..N |-> 0] /\ shared = 0 /\ tmp = [i \in 1..N |-> "idle"]

\* an isolated step reads and writes only the connection's own state
StepIsolated(i) == /\ G_Isolated /\ pc[i] < K
                   /\ loc' = [loc EXCEPT ![i] = Mix(@, Work(i, pc[i] + 1))] /\ pc' = [pc EXCEPT ![i] = @ + 1]
                   /\ UNCHANGED <<shared, tmp>>
\* a step through shared state takes two actions: park the operand, then use whatever is parked there
Park(i) == /\ ~G_Isolated /\ pc[i] < K /\ tmp[i] = "idle"
           /\ shared' = Work(i, pc[i] + 1) /\ tmp' = [tmp EXCEPT ![i] = "parked"] /\ UNCHANGED <<pc, loc>>
Use(i) == /\ ~G_Isolated /\ tmp[i] = "parked"
          /\ loc' = [loc EXCEPT ![i] = Mix(@, shared)] /\ pc' = [pc EXCEPT ![i] = @ + 1] /\ tmp' = [tmp EXCEPT ![i] = "idle"]
          /\ UNCHANGED shared
Next == \E i \in 1..N : StepIsolated(i) \/ Park(i) \/ Use(i)
Spec == Init /\ [][Next]_vars

C19_SameAsAlone == \A i \in 1..N : (tmp[i] = "idle") => loc[i] = Solo(i, pc[i])
C19_NonInterference == [][\A i \in 1..N : (pc'[i] = pc[i]) => loc'[i] = loc[i]]_vars
C19_TablesReadOnly == [][G_Isolated => shared' = shared]_vars
=============================================================================
